#!/venv/bin/python
"""In-process restarts vs fresh-interpreter restarts (DESIGN 2.5).

For N seeded C26 scenarios: forward run with autosaves, pick a crash world, resume it (a)
in this process, (b) in a brand-new interpreter (python -m emusim.child); both must return
and agree with each other and with the uninterrupted reference.  Exit 1 on disagreement.

usage: tools/fresh_resume.py [--n 12] [--seed 3]"""
from __future__ import annotations

import argparse
import os
import pickle
import subprocess
import sys
import tempfile

VERIF = os.path.dirname(os.path.dirname(os.path.abspath(__file__)))
sys.path.insert(0, VERIF)


def main() -> int:
    ap = argparse.ArgumentParser()
    ap.add_argument("--n", type=int, default=12)
    ap.add_argument("--seed", type=int, default=3)
    a = ap.parse_args()
    os.environ.setdefault("OMP_NUM_THREADS", "1")
    from emusim import bootstrap

    bootstrap.import_sut()
    from emusim import mpsrun as M
    from emusim import results as R
    from emusim.checks import _crash as C
    from emusim.checks import c26
    from emusim.seams import World
    from emusim.tape import Tape, derive_seed

    done = bad = 0
    i = 0
    while done < a.n and i < a.n * 6:
        tape = Tape(seed=derive_seed(a.seed, "fresh", i))
        i += 1
        case = C.gen_case(tape, "quick", c26.PROFILE)
        seeds = (tape.seed32("a"), tape.seed32("b"), tape.seed32("c"))
        world = World("fresh")
        try:
            ref = C.reference_run(world, case, seeds)
            if ref.error is not None:
                continue
            _, pol = C.clock_policy(tape, case["cfg"]["autosave_dt"], "period")
            fw = C.forward_run(world, case, seeds, pol, None)
            if fw.error is not None or not fw.worlds:
                continue
            base = M.advertised_name(fw.worlds, fw.leftover, C.PREFIX)
            cache: dict = {}
            cands = [w for w in fw.worlds if base and M.loadable(w["files"].get(base), cache)[0] and C.stage_of(w, fw.progress_calls) == "run"]
            if not cands:
                continue
            w = cands[tape.int(0, len(cands) - 1, "pick")]
            rng = fw.rng_by_sha.get(M.sha(w["files"][base]))
            inproc = C.resume_run(world, case, w["files"], base, rng, True, (lambda n: 0.003))
        finally:
            world.close()
        with tempfile.TemporaryDirectory(dir="/dev/shm") as td:
            job = {"files": w["files"], "base": base, "rng": rng, "perm": (case["perm"] if case["perm_kind"] != "real" else None), "optimize": bool(case["cfg"]["optimize"]) and case["perm_kind"] != "real", "as_path": True}
            if case["cfg"]["optimize"] and case["perm_kind"] == "real":
                continue  # the optimiser is not consulted on resume anyway; keep the job description simple
            with open(os.path.join(td, "job.pickle"), "wb") as f:
                pickle.dump(job, f)
            env = dict(os.environ, PYTHONHASHSEED="4242", PYTHONPATH=VERIF)
            r = subprocess.run(["/venv/bin/python", "-W", "ignore", "-m", "emusim.child", os.path.join(td, "job.pickle"), os.path.join(td, "out.pickle")], env=env, cwd=VERIF, capture_output=True, text=True, timeout=900)
            if r.returncode != 0:
                print(f"scenario {i - 1}: child failed: {r.stderr[-800:]}")
                bad += 1
                done += 1
                continue
            with open(os.path.join(td, "out.pickle"), "rb") as f:
                child = pickle.load(f)
        done += 1
        problems = []
        if inproc.error is not None:
            problems.append(f"in-process resume raised {inproc.error!r}")
        if child["error"] is not None:
            problems.append(f"fresh-interpreter resume raised {child['error']}")
        if not problems:
            d1 = R.compare(inproc.results, child["results"])
            d2 = R.compare(ref.results, child["results"])
            if d1:
                problems.append(f"in-process vs fresh interpreter: {d1[:2]}")
            if d2:
                problems.append(f"reference vs fresh interpreter: {d2[:2]}")
        print(f"scenario {i - 1}: {case['solver']} N={len(case['scn']['atoms'])} resumed from autosave #{w['save']}: {'OK' if not problems else problems}", flush=True)
        bad += 1 if problems else 0
    print(f"fresh-interpreter restarts: {done} compared, {bad} disagreements")
    return 1 if bad else 0


if __name__ == "__main__":
    sys.exit(main())
