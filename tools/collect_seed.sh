#!/bin/sh
# usage: tools/collect_seed.sh <worktree-name e.g. C27-a> <property id> "<needs>" [test files...]
# Confirms a seeded change in its scratch worktree (demo FAILs with it, PASSes without; the listed test
# files give the same outcome with and without) and stores it as /verif/seeded/<name>/.
set -u
NAME=$1; W=/tmp/seed/$1; P=$2; NEEDS=$3; shift 3
D=/verif/seeded/$(echo "$NAME" | tr 'A-Z' 'a-z')
mkdir -p "$D"
cd "$W" || exit 2
export OMP_NUM_THREADS=1 PYTHONPATH="$W"
git diff -- emu_base emu_mps emu_sv > "$D/patch.diff"
[ -s "$D/patch.diff" ] || { echo "no source diff in $W"; exit 2; }
PY=/venv/bin/python
timeout 600 $PY -W ignore DEMO.py > "$D/demo_with_change.out" 2>&1; RC_WITH=$?
TW=""; if [ $# -gt 0 ]; then TW=$(timeout 1800 $PY -m pytest -q -p no:cacheprovider "$@" 2>&1 | tail -1); fi
git checkout -q -- emu_base emu_mps emu_sv
timeout 600 $PY -W ignore DEMO.py > "$D/demo_without_change.out" 2>&1; RC_WITHOUT=$?
TO=""; if [ $# -gt 0 ]; then TO=$(timeout 1800 $PY -m pytest -q -p no:cacheprovider "$@" 2>&1 | tail -1); fi
git apply "$D/patch.diff"
cp DEMO.py "$D/DEMO.py"; cp NOTES.md "$D/NOTES.md" 2>/dev/null
cat > "$D/meta.json" <<EOF
{
 "property": "$P",
 "origin": "independent sub-agent given only the property text and a scratch worktree",
 "needs": "$NEEDS",
 "confirmed": {
  "demo_exit_with_change": $RC_WITH,
  "demo_exit_without_change": $RC_WITHOUT,
  "tests_run": "$*",
  "tests_with_change": "$TW",
  "tests_without_change": "$TO"
 }
}
EOF
echo "$NAME: demo with=$RC_WITH without=$RC_WITHOUT | tests with: $TW | without: $TO"
