#!/venv/bin/python
"""Writes /verif/MANIFEST.json from the registry below and validates it."""
import json
import os
import sys

HERE = os.path.dirname(os.path.dirname(os.path.abspath(__file__)))

NA = {
    "C01": "pure function of the sequence: no clock, file, random source or schedule enters the statement; deciding it needs an independent propagator and input generation, not a scheduler",
    "C02": "pure function of the sequence; its only run-time-chosen ingredient (the internal qubit order) is decided under C03",
    "C04": "a pure accept/reject decision at construction time; nothing to schedule or fault",
    "C05": "pure tensor identity (MPO vs dense Hamiltonian)",
    "C06": "pure linear-algebra identity; the GPU path is unreachable here (no CUDA device)",
    "C07": "pure numerical contract of a deterministic function",
    "C08": "pure numerical contract of a deterministic function",
    "C09": "pure numerical quality claim; DMRG's crash/resume behaviour is covered by C26",
    "C10": "sequential operation histories on a value object with no fault, clock or concurrency: model-based property testing, a different family",
    "C11": "pure (MPS/MPO algebra vs dense)",
    "C12": "pure (state-vector / density-matrix objects vs definitions)",
    "C13": "pure function of (state, Hamiltonian); the range clause for noisy trajectories is enforced inside C17's runs",
    "C16": "deterministic ODE integration; no schedule, fault or random source",
    "C20": "pure (PCHIP interpolation)",
    "C22": "pure function of Pulser's samples",
    "C23": "pure function of (config, t)",
    "C24": "pure mapping from noise model to operators (an error there would surface as a C17 deviation, but C17 is not a decision procedure for C24)",
    "C25": "pure function of the bad-atom mask; the mask's random origin does not enter the statement",
    "C28": "numerical invariant of a deterministic integrator; no fault can break it that C26 does not already catch",
    "C29": "metamorphic relation on inputs only",
    "C30": "pure (autograd vs finite differences)",
    "C31": "a dependency-version matrix with exactly one pulser-core version available offline; nothing to schedule (the defect it describes blocked every simulated run and was repaired, see known_findings.json F1)",
    "C32": "the optimiser's RNG cannot make the result invalid or worse (identity is always a candidate and an assert guards the bound); the statement quantifies over input matrices",
    "C33": "pure constructor logic",
}

CLAIMED = {
    "C03": dict(
        level="exploration",
        technique="deterministic simulation: the run-time-chosen internal qubit order is a seam (the scheduler returns identity / reversal / the real optimiser's answer / arbitrary permutations), plus register relabelling and crash+resume; run-vs-run oracle",
        design="7.3",
        text="Seeded scenarios with distinguishable atoms (local targets, DMM, SLM, dark atoms, pi pulse on one atom, user initial state) are run under several internal orders, with the register re-inserted / relabelled, with non-permutable observables (safeguard) and interrupted by crash+resume; results must agree (2e-3 absolute; 3e-2 in the close-pair blockade workloads, whose signal is 0.2-0.45; relative to |H| / |H|^2 for energies) and list atoms in register order; strongly interacting long workloads (SLM mask with a blockaded neighbour, blockade, user matrices with couplings of both signs) use adjacency-preserving orders only (mirror image, the real optimiser's answer), because two-site TDVP projects out part of a coupling between non-adjacent sites; the pi-pulse workload checks bit-string positions exactly, every noiseless run checks its bit-string positions against its own occupations (exact binomial); 2-6 atoms plus 8-16 atom registers; second instances of per-atom observables under a tag_suffix.",
        note="tolerance calibrated on the repaired tree (max discrepancy reported in the evidence); weakly entangling workloads with truncation off so that TDVP's order-dependent error is far below the tolerance",
    ),
    "C14": dict(
        level="exploration",
        technique="deterministic simulation of the discrete-event loop over target times: seeded evaluation-time / dt swarm on both backends and all solvers incl. quantum-jump re-evolution and crash+resume; history oracle over the recorded Results plus a clock-revealing workload",
        design="7.4",
        text="Per observable the recorded times must be strictly increasing and equal the requested set one-to-one (1e-10), nothing else recorded, run() must not raise; with the clock-revealing workload (non-interacting atoms, constant resonant drive) each recorded occupation must equal sin^2(Omega t/2) at the requested time (1e-7) and the sampled bit strings must follow it (exact binomial); a quarter of the runs with a default-times observable are followed by two more runs that reuse the same observable instances under other default_evaluation_times.",
        note="for emu-sv there is no fault to inject (no autosave, no jump search): there the check is the history oracle over seeded configurations",
    ),
    "C15": dict(
        level="exploration",
        technique="seeded-RNG seam (torch + random from the tape) with per-draw invariants on every seed and exact binomial acceptance against an independent Born-rule + bit-flip-channel model; no clock or fault involved (stated)",
        design="7.9",
        text="Random MPS (qubits/qutrits), state vectors, density matrices and product states, 1..20000 shots, readout error rates in [0,1] incl. 0 and 1: total count, string format, impossible outcomes, bit positions (product states), and per-string exact two-sided binomial tests at a family-wise level of 1e-9 per invocation. Every fourth case is the BitStrings result of a backend run (emu-mps with a scheduler-chosen internal order, emu-sv, emu-sv Lindblad; readout errors from the config; other observables incl. EntanglementEntropy evaluated on the shared state before/after) tested against the Born distribution of the StateResult of the same scenario.",
        note="statistical acceptance at a fixed family-wise error rate; the Born model is a dense contraction independent of the sampling code",
    ),
    "C17": dict(
        level="exploration",
        technique="deterministic simulation of seeded jump schedules (one RNG stream per trajectory) with per-trajectory invariants and a finite-sample (empirical Bernstein) acceptance test of the trajectory mean against a dense Lindblad reference model",
        design="7.8",
        text="16 (quick) / 64 (thorough) seeded cases covering every Lindblad channel alone and in pairs incl. 3x3 effective noise, 1600 / 6400 trajectories each; every trajectory's values in physical range; every (component, time) mean within the confidence radius of the model (family-wise 1e-9); the norm of every state handed to an observable is checked; one case in three delivers the noise model through the device (prefer_device_noise_model) with a decoy in the config.",
        note="bias allowance 1e-2 for the solver's deterministic error; collapse operators of the model written from Pulser's definitions; one open known finding (F9)",
    ),
    "C21": dict(
        level="exploration",
        technique="deterministic simulation: the executed step calendar (read from the per-step `statistics` record and from step/trajectory counters) of every solver, incl. re-entered steps and crash+resume, against an exact-rational reference calendar",
        design="7.5",
        text="Executed step boundaries strictly increasing from 0 to the duration, containing every multiple of dt and every requested time and nothing else; one solver step per interval; n_trajectories simulations per run; dt values that divide the duration only up to rounding, fractional dt, microsecond-long Lindblad runs, XY sequences. Weakest fit of the family: the calendar itself is a pure function, its execution is not.",
        note="calendar points closer than 1e-10 (relative) count as one; state-preparation errors excluded from the workload (C25's subject)",
    ),
    "C34": dict(
        level="exploration",
        technique="deterministic simulation with the numpy RNG that drives Pulser's noise-trajectory sampling under the tape; the per-trajectory history is recorded at the _run_from_sequence_data seam; conservation / exactly-once oracle plus isolated re-simulation of recorded trajectories",
        design="7.10",
        text="Exactly n_trajectories simulations (incl. shots in which no atom is loaded, devices without a noise model, user-supplied initial states and interaction matrices, one-sided readout errors); MEAN tags equal the arithmetic mean of the recorded per-trajectory values (1e-12), bit-string counter equals the multiset union and sums to n x shots, times preserved; each sampled trajectory re-simulated alone - from its pre-call SequenceData, or as trajectory k of a trajectory list rebuilt from the sequence under the same seeds with none of its predecessors simulated - and its RNG state reproduces the recorded result (no cross-trajectory state).",
        note="aggregation semantics are Pulser's; runs that emu-mps refuses (fewer than two well-prepared atoms) are skipped and counted",
    ),
    "C26": dict(
        level="fault_enumeration",
        technique="deterministic simulation: simulated clock + crash worlds (directory snapshots) + fresh incarnations resuming, compared run-vs-run with a reference; seeded scenarios",
        design="7.1",
        text="Per seeded scenario every distinct autosave the forward run made visible (with the 'every' clock policy: every sweep position / jump-search iteration) is resumed in a fresh incarnation, incarnations are crashed again up to depth 3, and the result must equal the uninterrupted reference (tags, times, atom order exactly; values 1e-10; noisy runs under RNG coupling). Enumeration inside a scenario, seeded sampling across scenarios.",
        note="in-process restarts (fresh-interpreter restarts sampled by the selftest); RNG coupling for noisy runs; single trajectory per run; no power-loss model",
    ),
    "C27": dict(
        level="fault_enumeration",
        technique="deterministic simulation: file-system interception points at the kernel-level writes under CPython's own buffering, crash before/after/inside (torn prefix) every operation of every autosave, injected ENOSPC/EIO/EACCES and KeyboardInterrupt, write-buffer size as a per-run knob, resume from each crash world",
        design="7.2",
        text="Within each seeded scenario every file-system operation of every autosave is a crash point (before/after, torn prefixes of every write, error returns); the disk state left behind must hold a loadable file under the advertised name (all worlds) and resuming from it must reproduce the reference (all distinct states in the thorough tier). The SUT writes through CPython's real BufferedWriter onto an intercepted raw file (buffer size 512 B .. 1 MiB per run): bytes still in the user-space buffer are not in a crash world. Killed-with-unwinding faults (error returns, KeyboardInterrupt before/after an operation) are judged on the directory the unwound process leaves.",
        note="process-crash model (directory contents survive), kernel POSIX semantics on tmpfs, no fsync/power-loss model because the property does not ask for it",
    ),
    "C19": dict(
        level="exploration",
        technique="deterministic simulation of the get_next_abscissa/provide_ordinate protocol against a seeded adversarial environment (the function being searched), history oracle with a bracket model, bounded liveness",
        design="7.7",
        text="Seeded search over dialogues between the root finder and an adversary that owns the function (discontinuous, wildly scaled, epsilon-straddling, exact zeros, adaptive keep-larger-half, real functions with a late steep crossing, one-step lookahead on a copy of the finder); every abscissa inside the bracket, termination within 2(N+2)^2+10 evaluations, result at an evaluated sign change, one-at-a-time dialogue == find_root_brents.",
        note="tolerance >= 4 ulp; the environment is a function (memoised); finite ordinates",
    ),
    "C18": dict(
        level="exploration",
        technique="deterministic simulation of the jump-stepping state machine: traced MPSBackend.run() with real numerics (seeded RNG, buggified thresholds) and with a stubbed evolution whose squared norm is answered by a seeded adversary; invariants over the event history, bounded liveness",
        design="7.6",
        text="Invariants I1-I7 (steps once and in order, times inside the step, jumps at an evaluated crossing within 1 ns, no step completed below threshold, post-jump state, observables once per due time at step boundaries, bounded number of sweeps per search / per run) checked over every traced run; 30 % of the runs are crash+resume histories (autosave after every unit of work, crash after a chosen autosave - preferably one written during an active jump search -, resume, possibly twice) judged on the concatenated trace; dark atoms in 20 % of the real-numerics runs.",
        note="white-box trace on sweep_complete/timestep_complete/do_random_quantum_jump/fill_results/set_jump_threshold; stub mode replaces _evolve and MPS.norm",
    ),
}

PENDING = {}


def main() -> int:
    checks = []
    for cid, c in sorted(CLAIMED.items()):
        checks.append(
            {
                "property_id": cid,
                "quick_cmd": f"./check {cid} --tier quick",
                "thorough_cmd": f"./check {cid} --tier thorough",
                "evidence_file": f"/verif/evidence/{cid}.json",
                "replay_cmd_template": "./check --replay {path}",
                "engine": "emusim",
                "level_claimed": {"category": c["level"], "text": c["text"], "design_ref": f"DESIGN.md section {c['design']}"},
                "level_note": c["note"],
                "technique": c["technique"],
            }
        )
    na = [{"property_id": k, "reason": v} for k, v in sorted({**NA, **PENDING}.items())]
    man = {
        "version": 1,
        "setup_cmd": "./check --selfcheck-imports",
        "hooks": {
            "guard": "PASQAL_IO_EMULATORS_VERIF",
            "enable": "no hook exists in /repo: every seam (clock, file system incl. write buffering, uuid, RNG, resource usage, qubit order, trace) is installed from the harness by rebinding names / wrapping methods for the duration of a simulated run; the checks import the working tree of /repo directly",
            "baseline_off_cmd": "cd /repo && /venv/bin/python -m pytest -ra -q -p no:cacheprovider --timeout=900 --continue-on-collection-errors",
            "source_commits": [],
            "add_only": True,
        },
        "engines": [
            {
                "name": "emusim",
                "path": "/verif/emusim",
                "serves_properties": sorted(CLAIMED),
                "kind_free_text": "deterministic simulator with fault injection written for this repository: choice tape (one integer decides everything), simulated clock / tmpfs disk with interception points / uuid / RNG / qubit-order seams, crash worlds and fresh incarnations, adversarial environments, seeded batch runner with tape minimisation and replay files",
            }
        ],
        "checks": checks,
        "not_applicable": na,
        "notes": "See DESIGN.md. Exit codes: 0 property held on everything explored; 1 + 'VIOLATION property=<id> replay=<path>' otherwise; 2 + 'HARNESS-ERROR' when the harness itself failed (never a verdict). known_findings.json lists repaired (fixed) and open findings.",
    }
    import jsonschema

    with open("/root/.vp/MANIFEST.schema.json") as f:
        jsonschema.validate(man, json.load(f))
    ids = {c["property_id"] for c in checks} | {x["property_id"] for x in na}
    props = [json.loads(l)["id"] for l in open(os.path.join(HERE, "properties.jsonl"))]
    missing = [p for p in props if p not in ids]
    if missing:
        print("properties neither claimed nor not_applicable:", missing)
        return 1
    with open(os.path.join(HERE, "MANIFEST.json"), "w") as f:
        json.dump(man, f, indent=1)
    print(f"MANIFEST.json: {len(checks)} checks, {len(na)} not applicable")
    return 0


if __name__ == "__main__":
    sys.exit(main())
