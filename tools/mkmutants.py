#!/venv/bin/python
"""Generates the hand-made mutant patches in /verif/mutants from (file, old, new) triples
applied to a scratch copy of the current /repo tree.  Realistic small changes that compile
and keep the repository's own tests green; each lists the checks expected to catch it."""
from __future__ import annotations

import json
import os
import shutil
import subprocess
import sys

VERIF = os.path.dirname(os.path.dirname(os.path.abspath(__file__)))
SCR = "/dev/shm/emusim_mkmut"

M = [
    # ---- C15
    ("m-c15-swap-fp-fn", "emu_base/utils.py", 'if c == "0" and r < p_false_pos:', 'if c == "0" and r < p_false_neg:', ["C15"]),
    ("m-c15-leak-reads-1", "emu_mps/mps.py", '"1" if x == 1 else "0"', '"1" if x >= 1 else "0"', ["C15"]),
    ("m-c15-sv-bitstring-reversed", "emu_sv/utils.py", 'return format(index, f"0{nqubits}b")', 'return format(index, f"0{nqubits}b")[::-1]', ["C15"]),
    ("m-c15-errors-skipped-single-rate", "emu_mps/mps.py", "if p_false_neg > 0 or p_false_pos > 0 and self.dim == 2:", "if p_false_neg > 0 and p_false_pos > 0 and self.dim == 2:", ["C15"]),
    ("m-c15-last-batch-dropped", "emu_mps/mps.py", "        while shots_done < num_shots:", "        while shots_done < num_shots - (1 if num_shots % max_batch_size == 1 and num_shots > max_batch_size else 0):", ["C15"]),
    # ---- C18
    ("m-c18-finder-not-cleared", "emu_mps/mps_backend_impl.py", "            self.target_time = self.target_times[self._timestep_index + 1]\n            self.root_finder = None\n", "            self.target_time = self.target_times[self._timestep_index + 1]\n", ["C18"]),
    ("m-c18-wrong-target-after-jump", "emu_mps/mps_backend_impl.py", "            self.do_random_quantum_jump()\n            self.target_time = self.target_times[self._timestep_index + 1]", "            self.do_random_quantum_jump()\n            self.target_time = self.target_times[min(self._timestep_index + 2, len(self.target_times) - 1)]", ["C18"]),
    ("m-c18-jump-tolerance-5ns", "emu_mps/mps_backend_impl.py", "if self.root_finder.is_converged(tolerance=1):", "if self.root_finder.is_converged(tolerance=5):", ["C18"]),
    ("m-c18-complete-below-threshold", "emu_mps/mps_backend_impl.py", "            if self.norm_gap_before_jump < 0:\n                # Initiate quantum jump location finding", "            if self.norm_gap_before_jump < -0.05:\n                # Initiate quantum jump location finding", ["C18", "C17"]),
    # ---- C19
    ("m-c19-no-direction-check", "emu_base/math/brents_root_finding.py", "or (adx >= abs(3 * delta_ab / 4) or dx * delta_ab < 0)", "or (adx >= abs(3 * delta_ab / 4))", ["C19"]),
    ("m-c19-bracket-update-swapped", "emu_base/math/brents_root_finding.py", "        if _same_sign(self.fb, ordinate) or (", "        if _same_sign(self.fa, ordinate) or (", ["C19", "C18"]),
    # ---- C26
    ("m-c26-sweep-index-reset-on-load", "emu_mps/mps_backend_impl.py", "        self.config.monkeypatch_observables()\n", "        self.config.monkeypatch_observables()\n        self._sweep_index = 0\n", ["C26", "C27"]),
    ("m-c26-file-not-removed", "emu_mps/mps_backend.py", "        if impl.autosave_file.is_file():\n            os.remove(impl.autosave_file)", "        if impl.autosave_file.is_file() and impl.config.autosave_dt == float(\"inf\"):\n            os.remove(impl.autosave_file)", ["C26"]),
    ("m-c26-statistics-lost", "emu_mps/mps_backend_impl.py", '        d["results"] = self.results._to_abstract_repr()  # type: ignore[operator]\n', '        d["results"] = self.results._to_abstract_repr()  # type: ignore[operator]\n        d["statistics"] = Statistics(evaluation_times=self.statistics.evaluation_times, data=[], timestep_count=self.timestep_count)\n', ["C26"]),
    # ---- C27
    ("m-c27-write-in-place", "emu_mps/mps_backend_impl.py", '        with open(basename.with_suffix(".new"), "wb") as file_handle:\n            pickle.dump(self, file_handle)\n', '        with open(basename, "wb") as file_handle:\n            pickle.dump(self, file_handle)\n        shutil_copy = open(basename, "rb").read()\n        open(basename.with_suffix(".new"), "wb").write(shutil_copy)\n', ["C27"]),
    ("m-c27-remove-then-rename", "emu_mps/mps_backend_impl.py", '        os.replace(basename.with_suffix(".new"), basename)', '        if basename.is_file():\n            os.remove(basename)\n        os.rename(basename.with_suffix(".new"), basename)', ["C27"]),
    # ---- C14
    ("m-c14-sv-observable-off-by-one", "emu_sv/sv_backend_impl.py", "        norm_time = self.target_times[step_idx] / self.target_times[-1]\n        callbacks_for_current_time_step = [", "        norm_time = self.target_times[max(step_idx - 1, 0) if 0 < step_idx < self.nsteps else step_idx] / self.target_times[-1]\n        callbacks_for_current_time_step = [", ["C14"]),
    ("m-c14-loose-match-tolerance", "emu_mps/mps_backend_impl.py", "        tolerance: float = 1e-10,", "        tolerance: float = 5e-3,", ["C14"]),
    ("m-c14-time-zero-skipped-on-resume", "emu_mps/mps_backend_impl.py", "        self.fill_results()  # at t == 0 for pulser compatibility", "        if self.config.autosave_dt == float(\"inf\"):\n            self.fill_results()  # at t == 0 for pulser compatibility", ["C14", "C26"]),
    # ---- C21
    ("m-c21-grid-drops-last-multiple", "emu_base/pulser_adapter.py", "        i * float(dt) / duration for i in range(n_steps + 1)", "        i * float(dt) / duration for i in range(n_steps + (0 if duration / dt > 50 else 1))", ["C21"]),
    ("m-c21-reps-off-by-one", "emu_base/pulser_adapter.py", "            for _ in range(samples.reps):", "            for _ in range(samples.reps if samples.reps < 3 else samples.reps - 1):", ["C21", "C34"]),
    # ---- C34
    # (a first idea, `self.omega[:, dark] *= 0.5` instead of `= 0.0` in emu-sv, turned out to be an equivalent mutant:
    #  Pulser already samples a zero drive for badly prepared atoms)
    ("m-c34-mps-drops-last-when-many", "emu_mps/mps_backend.py", "        return Results.aggregate(results)", "        return Results.aggregate(results if len(results) < 10 else results[:-1])", ["C34"]),
    ("m-c34-sv-shared-delta-drifts", "emu_sv/sv_backend_impl.py", "            self.delta[:, self.well_prepared_qubits_filter] = 0.0", "            self.delta[:, ~self.well_prepared_qubits_filter] += 1e-3", ["C34"]),
    # ---- C03
    ("m-c03-results-permuted-forward", "emu_mps/mps_backend_impl.py", "            inv_perm = optimat.inv_permutation(self.qubit_permutation)", "            inv_perm = self.qubit_permutation", ["C03"]),
    ("m-c03-initial-state-not-permuted", "emu_mps/mps_backend_impl.py", "                optimat.permute_string(bstr, self.qubit_permutation): amp", "                bstr: amp", ["C03"]),
    ("m-c03-safeguard-whitelist-widened", "emu_mps/mps_config.py", '                "energy_second_moment",\n            ]', '                "energy_second_moment",\n                "state",\n                "entanglement_entropy",\n            ]', ["C03"]),
    # ---- C17
    ("m-c17-noise-term-doubled", "emu_base/jump_lindblad_operators.py", "    return -0.5j * sum((L.mH @ L for L in lindbladians), start=zero)", "    return -1.0j * sum((L.mH @ L for L in lindbladians), start=zero)", ["C17"]),
    ("m-c17-uniform-jump-choice", "emu_mps/mps_backend_impl.py", "            weights=jump_operator_weights.view(-1).tolist(),", "            weights=[1.0 if w > 1e-12 else 0.0 for w in jump_operator_weights.view(-1).tolist()],", ["C17"]),
    ("m-c17-threshold-vs-norm", "emu_mps/mps_backend_impl.py", "        self.norm_gap_before_jump = self.state.norm().item() ** 2 - self.jump_threshold\n\n        if self.root_finder is None:", "        self.norm_gap_before_jump = self.state.norm().item() - self.jump_threshold\n\n        if self.root_finder is None:", ["C17", "C18"]),
]


def main() -> int:
    shutil.rmtree(SCR, ignore_errors=True)
    exp_path = os.path.join(VERIF, "mutants", "expected.json")
    exp = json.load(open(exp_path)) if os.path.exists(exp_path) else {}
    bad = 0
    for name, rel, old, new, checks in M:
        a, b = os.path.join(SCR, "a"), os.path.join(SCR, "b")
        for d in (a, b):
            shutil.rmtree(d, ignore_errors=True)
            os.makedirs(os.path.join(d, os.path.dirname(rel)))
            shutil.copy(os.path.join("/repo", rel), os.path.join(d, rel))
        s = open(os.path.join(b, rel)).read()
        if s.count(old) != 1:
            print(f"{name}: pattern found {s.count(old)} times in {rel}")
            bad += 1
            continue
        open(os.path.join(b, rel), "w").write(s.replace(old, new))
        r = subprocess.run(["python3", "-m", "py_compile", os.path.join(b, rel)], capture_output=True, text=True)
        if r.returncode:
            print(f"{name}: does not compile: {r.stderr[-300:]}")
            bad += 1
            continue
        d = subprocess.run(["diff", "-u", f"a/{rel}", f"b/{rel}"], cwd=SCR, capture_output=True, text=True).stdout
        with open(os.path.join(VERIF, "mutants", name + ".patch"), "w") as f:
            f.write(d)
        exp[name] = {"checks": checks}
    json.dump(exp, open(exp_path, "w"), indent=1, sort_keys=True)
    shutil.rmtree(SCR, ignore_errors=True)
    print(f"{len(M) - bad} mutants written, {bad} problems")
    return 1 if bad else 0


if __name__ == "__main__":
    sys.exit(main())
