#!/venv/bin/python
"""Sensitivity self-test: apply each patch of /verif/mutants (and /verif/seeded/*/patch.diff)
to a scratch copy of the SUT, run the listed checks against the copy (EMUSIM_REPO) and
report which checks raise a VIOLATION.  Nothing is ever applied inside /repo.

usage: tools/mutants.py [--tier quick] [--only NAME_SUBSTR] [--checks C26,C27] [--runs N] [--jobs J]
Writes /verif/out/mutants.json (git-ignored) and prints a table."""
from __future__ import annotations

import argparse
import concurrent.futures as cf
import json
import os
import shutil
import subprocess
import sys
import time

VERIF = os.path.dirname(os.path.dirname(os.path.abspath(__file__)))
SCRATCH = f"/dev/shm/emusim_mut_{os.getpid()}"  # per process: two invocations must not remove each other's copies
ALL = ["C03", "C14", "C15", "C17", "C18", "C19", "C21", "C26", "C27", "C34"]


def discover() -> list[tuple[str, str, dict]]:
    out = []
    md = os.path.join(VERIF, "mutants")
    meta_all = {}
    mp = os.path.join(md, "expected.json")
    if os.path.exists(mp):
        meta_all = json.load(open(mp))
    for f in sorted(os.listdir(md)):
        if f.endswith(".patch"):
            out.append((f[:-6], os.path.join(md, f), meta_all.get(f[:-6], {})))
    sd = os.path.join(VERIF, "seeded")
    if os.path.isdir(sd):
        for d in sorted(os.listdir(sd)):
            p = os.path.join(sd, d, "patch.diff")
            if os.path.exists(p):
                meta = {}
                mj = os.path.join(sd, d, "meta.json")
                if os.path.exists(mj):
                    meta = json.load(open(mj))
                out.append((f"seeded/{d}", p, {"checks": meta.get("checks") or ([meta["property"]] if meta.get("property") else [])}))
    return out


def make_copy(name: str, patch: str | None) -> str:
    dst = os.path.join(SCRATCH, name.replace("/", "_"))
    shutil.rmtree(dst, ignore_errors=True)
    os.makedirs(dst)
    for d in ("emu_base", "emu_mps", "emu_sv"):
        shutil.copytree(os.path.join("/repo", d), os.path.join(dst, d), ignore=shutil.ignore_patterns("__pycache__"))
    if patch:
        r = subprocess.run(["patch", "-p1", "-s", "-i", patch], cwd=dst, capture_output=True, text=True)
        if r.returncode != 0:
            raise RuntimeError(f"patch {patch} does not apply: {r.stdout} {r.stderr}")
    return dst


def run_check(copy: str, cid: str, tier: str, runs: int | None, seed: int) -> tuple[int, str, float]:
    env = dict(os.environ)
    env["EMUSIM_REPO"] = copy
    env["VERIF_SEED"] = str(seed)
    cmd = [os.path.join(VERIF, "check"), cid, "--tier", tier, "--no-evidence", "--no-shrink"]
    if runs:
        cmd += ["--runs", str(runs)]
    t0 = time.time()
    r = subprocess.run(cmd, env=env, capture_output=True, text=True, timeout=3600)
    lines = [l for l in r.stdout.splitlines() if l.startswith("# violation class") or l.startswith("HARNESS") or l.startswith("KNOWN")]
    return r.returncode, "\n".join(lines[:3])[:600], time.time() - t0


def main() -> int:
    ap = argparse.ArgumentParser()
    ap.add_argument("--tier", default="quick")
    ap.add_argument("--only", default=None)
    ap.add_argument("--checks", default=None)
    ap.add_argument("--runs", type=int, default=None)
    ap.add_argument("--seed", type=int, default=0)
    ap.add_argument("--jobs", type=int, default=1)
    ap.add_argument("--baseline", action="store_true", help="also run the unpatched copy")
    a = ap.parse_args()
    muts = discover()
    if a.only:
        muts = [m for m in muts if a.only in m[0]]
    if a.baseline:
        muts = [("BASELINE", None, {"checks": ALL})] + muts
    table = {}
    os.makedirs(SCRATCH, exist_ok=True)
    workers_env = os.environ.get("EMUSIM_WORKERS")
    for name, patch, meta in muts:
        checks = a.checks.split(",") if a.checks else (meta.get("checks") or ALL)
        checks = [c for c in checks if os.path.exists(os.path.join(VERIF, "emusim", "checks", c.lower() + ".py"))]
        try:
            copy = make_copy(name, patch)
        except Exception as e:
            print(f"{name}: {e}")
            table[name] = {"error": str(e)}
            continue
        row = {}
        try:
            with cf.ThreadPoolExecutor(max_workers=a.jobs) as ex:
                futs = {c: ex.submit(run_check, copy, c, a.tier, a.runs, a.seed) for c in checks}
                for c, f in futs.items():
                    rc, txt, dt = f.result()
                    row[c] = {"exit": rc, "first": txt, "s": round(dt, 1)}
        finally:
            shutil.rmtree(copy, ignore_errors=True)
        table[name] = row
        caught = [c for c, v in row.items() if v["exit"] == 1]
        broken = [c for c, v in row.items() if v["exit"] not in (0, 1)]
        print(f"{name:55s} caught by {caught or '-'}" + (f"  HARNESS-ERRORS in {broken}" if broken else ""), flush=True)
    os.makedirs(os.path.join(VERIF, "out"), exist_ok=True)
    with open(os.path.join(VERIF, "out", "mutants.json"), "w") as f:
        json.dump(table, f, indent=1)
    shutil.rmtree(SCRATCH, ignore_errors=True)
    return 0


if __name__ == "__main__":
    sys.exit(main())
