#!/venv/bin/python
"""Determinism / replay self-test of the simulator (DESIGN section 6).

For every check: the first N run indices are executed
  (a) with 16 workers, (b) with 4 workers, (c) in a fresh interpreter under another
  PYTHONHASHSEED,
and the per-run event-log digests and verdicts must be identical; then a sample of runs is
re-executed from its *recorded tape* and must give the same digest as the seeded run.
A mismatch is a harness bug and blocks everything else (exit 2).

usage: tools/selftest.py [--runs N] [--checks C26,C27] [--seed S]"""
from __future__ import annotations

import argparse
import json
import os
import subprocess
import sys
import tempfile

VERIF = os.path.dirname(os.path.dirname(os.path.abspath(__file__)))
ALL = ["C03", "C14", "C15", "C17", "C18", "C19", "C21", "C26", "C27", "C34"]


def dump(cid: str, runs: int, seed: int, workers: int, hashseed: str, extra: list[str] | None = None) -> dict:
    with tempfile.NamedTemporaryFile(suffix=".json", delete=False, dir="/dev/shm") as f:
        path = f.name
    env = dict(os.environ)
    env["EMUSIM_HASHSEED"] = hashseed
    env["VERIF_SEED"] = str(seed)
    env.pop("EMUSIM_REEXEC", None)
    cmd = [os.path.join(VERIF, "check"), cid, "--tier", "quick", "--runs", str(runs), "--no-evidence", "--no-shrink", "--workers", str(workers), "--dump", path] + (extra or [])
    r = subprocess.run(cmd, env=env, capture_output=True, text=True, timeout=3600)
    if r.returncode not in (0, 1):
        raise RuntimeError(f"{cid}: check exited {r.returncode}:\n{r.stdout[-2000:]}\n{r.stderr[-2000:]}")
    with open(path) as f:
        d = json.load(f)
    os.unlink(path)
    return {x["run_index"]: (x["digest"], tuple(x["violations"])) for x in d}


def main() -> int:
    ap = argparse.ArgumentParser()
    ap.add_argument("--runs", type=int, default=48)
    ap.add_argument("--checks", default=",".join(ALL))
    ap.add_argument("--seed", type=int, default=7)
    a = ap.parse_args()
    bad = 0
    total = 0
    for cid in a.checks.split(","):
        if not os.path.exists(os.path.join(VERIF, "emusim", "checks", cid.lower() + ".py")):
            continue
        runs = a.runs if cid != "C17" else max(16, (a.runs // 16) * 16)
        d16 = dump(cid, runs, a.seed, 16, "0")
        d4 = dump(cid, runs, a.seed, 4, "0")
        dh = dump(cid, runs, a.seed, 16, "12345")
        mism = [i for i in d16 if d16[i] != d4.get(i) or d16[i] != dh.get(i)]
        total += len(d16)
        print(f"{cid}: {len(d16)} runs x 3 executions (16 workers, 4 workers, PYTHONHASHSEED=12345): {len(mism)} digest/verdict mismatches", flush=True)
        if mism:
            bad += len(mism)
            for i in mism[:5]:
                print(f"   run {i}: {d16[i]} | {d4.get(i)} | {dh.get(i)}")
    # replay from recorded tape == seeded run
    code = r"""
import sys, json
sys.path.insert(0, %r)
from emusim import bootstrap; bootstrap.import_sut()
from emusim.runner import execute
bad = 0; n = 0
for cid in %r:
    for i in range(0, %d):
        if cid == "C17" and i > 1: break
        r1 = execute(cid, "quick", %d, i)
        if "harness_error" in r1: print("HARNESS", cid, i, r1["harness_error"][-600:]); bad += 1; continue
        if cid in ("C19", "C18", "C15"): continue   # batched: replay goes through the per-case sub-tape
        r2 = execute(cid, "quick", %d, i, recorded=r1["tape"])
        n += 1
        if r1.get("digest") != r2.get("digest"):
            bad += 1; print("REPLAY MISMATCH", cid, i, r1.get("digest"), r2.get("digest"))
print("replay-from-tape: %%d runs, %%d mismatches" %% (n, bad))
sys.exit(1 if bad else 0)
""" % (VERIF, [c for c in a.checks.split(",")], 6, a.seed, a.seed)
    env = dict(os.environ, PYTHONHASHSEED="0", OMP_NUM_THREADS="1")
    r = subprocess.run(["/venv/bin/python", "-W", "ignore", "-c", code], env=env, capture_output=True, text=True, timeout=3600)
    print(r.stdout.strip()[-1500:])
    if r.returncode != 0:
        bad += 1
        print(r.stderr[-1500:])
    print(f"selftest: {total} runs compared, {'FAILED' if bad else 'all deterministic'}")
    return 2 if bad else 0


if __name__ == "__main__":
    sys.exit(main())
