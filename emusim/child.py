"""Fresh-interpreter restart: resumes an emu-mps run from a crash world in a brand-new
Python process (no module globals, loggers, caches or run-time-created classes survive),
under the same clock / uuid / RNG seams, and writes the canonical results to a file.

usage: python -m emusim.child <job.pickle> <out.pickle>
job = {"files": {name: bytes}, "base": str, "rng": state|None, "perm": [..]|None, "optimize": bool, "as_path": bool}"""
from __future__ import annotations

import pickle
import sys


def main() -> int:
    from . import bootstrap

    bootstrap.import_sut()
    from . import mpsrun as M
    from .seams import World

    with open(sys.argv[1], "rb") as f:
        job = pickle.load(f)
    world = World("child")
    world.clock.policy = lambda n: 0.003
    perm = job.get("perm")

    def chooser(matrix, real):  # type: ignore[no-untyped-def]
        return perm if perm is not None else list(range(matrix.shape[0]))

    try:
        out = M.run_incarnation(world, M.mps_resume_fn(job["base"], job.get("as_path", True)), files=job["files"], rng_state=job.get("rng"), seeds=None if job.get("rng") is not None else (1, 2, 3), perm_chooser=chooser if job.get("optimize") else None)
    finally:
        world.close()
    with open(sys.argv[2], "wb") as f:
        pickle.dump({"results": out.results, "error": repr(out.error) if out.error is not None else None, "leftover": out.leftover}, f)
    return 0


if __name__ == "__main__":
    sys.exit(main())
