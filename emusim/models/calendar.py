"""Reference calendar: which absolute times a run must step through and when each
observable is due.  Exact rational arithmetic on the float inputs; ~30 lines of logic."""
from __future__ import annotations

from fractions import Fraction
from typing import Iterable, Sequence

REL_TOL = 1e-10  # calendar points closer than this (relative to the duration) are one point


def grid(T: float, dt: float) -> list[float]:
    """Every multiple of dt up to T, plus T."""
    Tq, dq = Fraction(T), Fraction(dt)
    n = int(Tq // dq)
    pts = [float(k * dq) for k in range(n + 1)]
    if not pts or abs(pts[-1] - T) > REL_TOL * T:
        pts.append(float(T))
    return pts


def cluster(points: Iterable[float], tol: float) -> list[float]:
    out: list[float] = []
    for p in sorted(points):
        if not out or p - out[-1] > tol:
            out.append(p)
    return out


def requested_times(observables: Sequence[dict], default_times: Sequence[float] | None) -> dict[str, list[float]]:
    """tag -> sorted relative times at which that observable is due (as requested)."""
    dflt = list(default_times) if default_times is not None else [1.0]
    out: dict[str, list[float]] = {}
    for o in observables:
        tag = o["kind"] + (("_" + o["suffix"]) if o.get("suffix") else "")
        ts = o.get("times")
        out[tag] = sorted(float(t) for t in (ts if ts is not None else dflt))
    return out


def expected_calendar(T: float, dt: float, observables: Sequence[dict], default_times: Sequence[float] | None) -> list[float]:
    pts = list(grid(T, dt))
    for ts in requested_times(observables, default_times).values():
        pts.extend(float(Fraction(t) * Fraction(T)) for t in ts)
    return cluster(pts, REL_TOL * T)


def match_times(recorded: Sequence[float], requested: Sequence[float], tol: float = 1e-9) -> str | None:
    """None iff recorded is strictly increasing and equals requested one-to-one within tol
    (requested times closer than tol to each other count once)."""
    req = cluster(requested, tol)
    rec = list(recorded)
    for a, b in zip(rec, rec[1:]):
        if not (b > a):
            return f"recorded times not strictly increasing: {rec}"
    if len(rec) != len(req):
        return f"{len(rec)} recorded times {rec} for {len(req)} requested times {req}"
    for a, b in zip(rec, req):
        if abs(a - b) > tol:
            return f"recorded time {a!r} does not match requested time {b!r} (recorded {rec}, requested {req})"
    return None
