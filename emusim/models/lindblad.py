"""Dense Lindblad reference for <= 4 two-level (<= 3 three-level) atoms.

Independent of emu_base.jump_lindblad_operators: collapse operators are written down from
Pulser's definition of each noise channel (pulser/_hamiltonian_data:
_build_local_collapse_operators), in the basis order (g, r[, x]):
  relaxation    sqrt(Gamma) |g><r|
  dephasing     sqrt(2 gamma) |r><r|
  depolarizing  sqrt(p/4) sigma_x, sigma_y, sigma_z
  eff_noise     sqrt(rate) * op, op given in Pulser's order (r, g[, x])
The Hamiltonian per step uses the per-step drive values and interaction matrix the
adapter produced (so time discretisation cancels in the comparison):
  H = sum_j Omega_j/2 (cos phi_j sx_j + sin phi_j sy_j) - delta_j n_j + sum_{i<j} U_ij n_i n_j
(rad/us; steps in ns)."""
from __future__ import annotations

import math

import numpy as np
from scipy.linalg import expm


def collapse_ops(noise: dict, d: int) -> list[np.ndarray]:
    ops: list[np.ndarray] = []
    g, r = 0, 1

    def E(i: int, j: int) -> np.ndarray:
        m = np.zeros((d, d), dtype=complex)
        m[i, j] = 1.0
        return m

    if noise.get("relaxation_rate"):
        ops.append(math.sqrt(noise["relaxation_rate"]) * E(g, r))
    if noise.get("dephasing_rate"):
        ops.append(math.sqrt(2.0 * noise["dephasing_rate"]) * E(r, r))
    if noise.get("depolarizing_rate"):
        c = math.sqrt(noise["depolarizing_rate"] / 4.0)
        ops.append(c * (E(g, r) + E(r, g)))
        ops.append(c * (-1j * E(g, r) + 1j * E(r, g)))
        ops.append(c * (E(g, g) - E(r, r)))
    if noise.get("eff_noise_rates"):
        pul = [1, 0, 2][:d]  # model index -> pulser index: g->1, r->0, x->2
        for rate, op in zip(noise["eff_noise_rates"], noise["eff_noise_opers"]):
            o = np.array(op, dtype=complex)
            m = np.zeros((d, d), dtype=complex)
            for i in range(d):
                for j in range(d):
                    m[i, j] = o[pul[i], pul[j]]
            ops.append(math.sqrt(rate) * m)
    return ops


def _site(op: np.ndarray, i: int, n: int, d: int) -> np.ndarray:
    out = np.eye(1, dtype=complex)
    for k in range(n):
        out = np.kron(out, op if k == i else np.eye(d, dtype=complex))
    return out


def evolve(omega: np.ndarray, delta: np.ndarray, phi: np.ndarray, U_of_t, target_times: list[float], noise: dict, d: int, eval_times: list[float]) -> dict:
    """Returns {"occupation": {t_rel: vec}, "correlation_matrix": {t_rel: mat}} for the
    requested relative times (matched to target times within 1e-9)."""
    nsteps, n = omega.shape
    D = d**n
    nloc = np.zeros((d, d), dtype=complex)
    nloc[1, 1] = 1.0
    sx = np.zeros((d, d), dtype=complex)
    sx[0, 1] = sx[1, 0] = 0.5
    sy = np.zeros((d, d), dtype=complex)
    sy[0, 1], sy[1, 0] = -0.5j, 0.5j
    N = [_site(nloc, i, n, d) for i in range(n)]
    SX = [_site(sx, i, n, d) for i in range(n)]
    SY = [_site(sy, i, n, d) for i in range(n)]
    Ls = [_site(L, i, n, d) for L in collapse_ops(noise, d) for i in range(n)]
    Id = np.eye(D, dtype=complex)
    diss = np.zeros((D * D, D * D), dtype=complex)
    for L in Ls:
        LdL = L.conj().T @ L
        diss += np.kron(L, L.conj()) - 0.5 * np.kron(LdL, Id) - 0.5 * np.kron(Id, LdL.T)
    rho = np.zeros((D, D), dtype=complex)
    rho[0, 0] = 1.0  # all atoms in g
    T = target_times[-1]
    out: dict = {"occupation": {}, "correlation_matrix": {}}

    def record(t_abs: float) -> None:
        for tr in eval_times:
            if abs(tr * T - t_abs) <= 1e-9 * max(T, 1.0):
                out["occupation"][tr] = np.array([np.real(np.trace(N[i] @ rho)) for i in range(n)])
                out["correlation_matrix"][tr] = np.array([[np.real(np.trace(N[i] @ N[j] @ rho)) for j in range(n)] for i in range(n)])

    record(target_times[0])
    vec = rho.reshape(-1)
    for k in range(nsteps):
        t0, t1 = target_times[k], target_times[k + 1]
        U = np.asarray(U_of_t(0.5 * (t0 + t1)), dtype=float)
        H = np.zeros((D, D), dtype=complex)
        for j in range(n):
            H += omega[k, j] * (math.cos(phi[k, j]) * SX[j] + math.sin(phi[k, j]) * SY[j]) - delta[k, j] * N[j]
        for i in range(n):
            for j in range(i + 1, n):
                if U[i, j] != 0.0:
                    H += U[i, j] * (N[i] @ N[j])
        Liou = -1j * (np.kron(H, Id) - np.kron(Id, H.T)) + diss
        vec = expm(Liou * ((t1 - t0) * 1e-3)) @ vec
        rho = vec.reshape(D, D)
        record(t1)
    return out


def survival(omega: np.ndarray, delta: np.ndarray, phi: np.ndarray, U_of_t, target_times: list[float], ops: list[np.ndarray], d: int) -> list[tuple[float, float]]:
    """Squared norm of the no-jump evolution under H_eff = H - (i/2) sum_k L_k^dagger L_k from |g...g>, at every target
    time: the probability that no quantum jump has happened yet.  It is the same deterministic function of time for every
    trajectory up to its first jump.  `ops` are the single-site jump operators *the emulator itself jumps with* (basis
    g, r[, x]): a master equation has many equivalent sets of collapse operators with different no-jump decays, so the
    only thing that can be demanded is that damping and jumps use the same set."""
    nsteps, n = omega.shape
    D = d**n
    nloc = np.zeros((d, d), dtype=complex)
    nloc[1, 1] = 1.0
    sx = np.zeros((d, d), dtype=complex)
    sx[0, 1] = sx[1, 0] = 0.5
    sy = np.zeros((d, d), dtype=complex)
    sy[0, 1], sy[1, 0] = -0.5j, 0.5j
    N = [_site(nloc, i, n, d) for i in range(n)]
    SX = [_site(sx, i, n, d) for i in range(n)]
    SY = [_site(sy, i, n, d) for i in range(n)]
    damp = np.zeros((D, D), dtype=complex)
    for L in ops:
        for i in range(n):
            Li = _site(np.asarray(L, dtype=complex), i, n, d)
            damp += Li.conj().T @ Li
    psi = np.zeros(D, dtype=complex)
    psi[0] = 1.0
    out = [(float(target_times[0]), 1.0)]
    for k in range(nsteps):
        t0, t1 = target_times[k], target_times[k + 1]
        U = np.asarray(U_of_t(0.5 * (t0 + t1)), dtype=float)
        H = np.zeros((D, D), dtype=complex)
        for j in range(n):
            H += omega[k, j] * (math.cos(phi[k, j]) * SX[j] + math.sin(phi[k, j]) * SY[j]) - delta[k, j] * N[j]
        for i in range(n):
            for j in range(i + 1, n):
                if U[i, j] != 0.0:
                    H += U[i, j] * (N[i] @ N[j])
        psi = expm(-1j * (H - 0.5j * damp) * ((t1 - t0) * 1e-3)) @ psi
        out.append((float(t1), float(np.real(np.vdot(psi, psi)))))
    return out
