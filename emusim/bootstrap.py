"""Process bootstrap: environment, import of the SUT from the tree under test."""
from __future__ import annotations

import os
import sys
import warnings

VERIF_DIR = os.path.dirname(os.path.dirname(os.path.abspath(__file__)))
REPO = os.path.realpath(os.environ.get("EMUSIM_REPO", "/repo"))


def ensure_env() -> None:
    """Re-exec once so that hash order and BLAS threading are pinned before anything is
    imported."""
    want = {"PYTHONHASHSEED": os.environ.get("EMUSIM_HASHSEED", "0"), "OMP_NUM_THREADS": "1", "MKL_NUM_THREADS": "1", "OPENBLAS_NUM_THREADS": "1"}
    if any(os.environ.get(k) != v for k, v in want.items()) and not os.environ.get("EMUSIM_REEXEC"):
        env = dict(os.environ)
        env.update(want)
        env["EMUSIM_REEXEC"] = "1"
        os.execve(sys.executable, [sys.executable] + sys.argv, env)


def import_sut() -> None:
    if REPO not in sys.path[:1]:
        sys.path.insert(0, REPO)
    try:
        import __editable___emulators_0_0_0_finder as fin  # type: ignore

        for k in list(fin.MAPPING):
            fin.MAPPING[k] = os.path.join(REPO, k)
    except Exception:
        pass
    warnings.filterwarnings("ignore")
    import torch

    torch.set_num_threads(1)
    import emu_base
    import emu_mps
    import emu_sv
    import emu_mps.mps_backend_impl  # noqa: F401
    import emu_sv.sv_backend_impl  # noqa: F401

    for m in (emu_base, emu_mps, emu_sv):
        f = os.path.realpath(m.__file__)
        if not f.startswith(REPO + os.sep):
            raise RuntimeError(f"{m.__name__} imported from {f}, expected under {REPO}")


def repo_state() -> dict:
    import subprocess

    def g(*a: str) -> str:
        try:
            return subprocess.run(["git", "-C", REPO, *a], capture_output=True, text=True, timeout=20).stdout.strip()
        except Exception:
            return ""

    import hashlib

    diff = g("diff", "HEAD", "--", "emu_base", "emu_mps", "emu_sv")
    return {"repo": REPO, "head": g("rev-parse", "HEAD"), "dirty_sha": hashlib.sha256(diff.encode()).hexdigest()[:16] if diff else None}
