"""Seams: everything nondeterministic the SUT can see goes through here.

All seams are installed from the outside (no hook in /repo) for the duration of one
incarnation and removed afterwards:

  * wall clock     - references to `time` inside emu_* module namespaces are rebound to a
                     SimTime proxy reading one SimClock (the stdlib module is untouched);
  * file system    - a real private tmpfs directory is the disk; open/os.rename/... are
                     wrapped (only for paths inside that directory) so that every
                     operation is a numbered interception point where the scheduler can
                     snapshot the directory (a "crash world") or inject an error;
  * uuid           - uuid.uuid1/uuid4 are counter based;
  * RNG            - random / numpy / torch are seeded (or restored) per incarnation;
  * qubit order    - optimatrix.minimize_bandwidth returns a scheduler-chosen permutation;
  * trace          - method wrappers appending to the run's event log.
"""
from __future__ import annotations

import builtins
import errno
import hashlib
import io
import json
import os
import random
import shutil
import sys
import time as _real_time
import uuid as _uuid_mod
from contextlib import contextmanager
from typing import Any, Callable, Optional

import numpy as np
import torch


class SimCrash(BaseException):
    """The simulated process dies here.  Never caught by the SUT (BaseException)."""


class BudgetExceeded(BaseException):
    """The liveness budget stated by a check was exhausted."""


class HarnessError(Exception):
    """Something the harness itself relies on is missing or broken (exit 2, never 1)."""


# --------------------------------------------------------------------------------------
# event log
# --------------------------------------------------------------------------------------
def _canon(o: Any) -> Any:
    if isinstance(o, float):
        return repr(o)
    if isinstance(o, (list, tuple)):
        return [_canon(x) for x in o]
    if isinstance(o, dict):
        return {str(k): _canon(v) for k, v in sorted(o.items(), key=lambda kv: str(kv[0]))}
    if isinstance(o, (np.floating,)):
        return repr(float(o))
    if isinstance(o, (np.integer,)):
        return int(o)
    if isinstance(o, (str, int, bool)) or o is None:
        return o
    return repr(o)


class EventLog:
    """Append-only list of (seq, kind, fields); seq is a global counter, never a time."""

    def __init__(self, keep: bool = True):
        self.events: list[tuple] = []
        self.seq = 0
        self._h = hashlib.sha256()
        self.keep = keep
        self.inc = 0

    def add(self, kind: str, **fields: Any) -> int:
        s = self.seq
        self.seq += 1
        line = json.dumps([s, self.inc, kind, _canon(fields)], sort_keys=True)
        self._h.update(line.encode())
        self._h.update(b"\n")
        if self.keep:
            self.events.append((s, self.inc, kind, fields))
        return s

    def digest(self) -> str:
        return self._h.hexdigest()

    def of_kind(self, *kinds: str) -> list[tuple]:
        return [e for e in self.events if e[2] in kinds]

    def tail(self, n: int = 40) -> list:
        return [[s, i, k, _canon(f)] for (s, i, k, f) in self.events[-n:]]


# --------------------------------------------------------------------------------------
# clock
# --------------------------------------------------------------------------------------
class SimClock:
    """The only wall clock the SUT reads.  Time passes only when the scheduler says so:
    on every read, according to `policy`, plus explicit jumps."""

    def __init__(self, epoch: float = 1.7e9):
        self.now = float(epoch)
        self.reads = 0
        self.policy: Callable[[int], float] = lambda n: 0.001
        self.jumps: dict[int, float] = {}
        self.frozen = False
        self.total_advanced = 0.0

    def read(self) -> float:
        n = self.reads
        self.reads += 1
        d = 0.0 if self.frozen else float(self.policy(n))
        d += self.jumps.get(n, 0.0)
        self.now += d
        self.total_advanced += abs(d)
        return self.now

    def advance(self, d: float) -> None:
        self.now += d
        self.total_advanced += abs(d)


class SimTime:
    """Drop-in for the `time` module inside SUT namespaces."""

    def __init__(self, clock: SimClock):
        self._clock = clock

    def time(self) -> float:
        return self._clock.read()

    def time_ns(self) -> int:
        return int(self._clock.read() * 1e9)

    def monotonic(self) -> float:
        return self._clock.read()

    def monotonic_ns(self) -> int:
        return int(self._clock.read() * 1e9)

    def perf_counter(self) -> float:
        return self._clock.read()

    def perf_counter_ns(self) -> int:
        return int(self._clock.read() * 1e9)

    def sleep(self, s: float) -> None:
        self._clock.advance(max(0.0, float(s)))

    def __getattr__(self, name: str) -> Any:
        return getattr(_real_time, name)


_TIME_FUNCS = (
    "time",
    "time_ns",
    "monotonic",
    "monotonic_ns",
    "perf_counter",
    "perf_counter_ns",
    "sleep",
)


_SUT_MODS: tuple[int, list] = (-1, [])


def _sut_modules() -> list:
    global _SUT_MODS
    if _SUT_MODS[0] != len(sys.modules):
        mods = [
            m
            for name, m in list(sys.modules.items())
            if m is not None and (name.split(".")[0] in ("emu_base", "emu_mps", "emu_sv"))
        ]
        _SUT_MODS = (len(sys.modules), mods)
    return _SUT_MODS[1]


class _Rebinder:
    """Rebinds names in SUT module namespaces and undoes it."""

    def __init__(self) -> None:
        self.undo: list[tuple[dict, str, Any]] = []

    def set(self, ns: dict, name: str, value: Any) -> None:
        self.undo.append((ns, name, ns[name]))
        ns[name] = value

    def setattr(self, obj: Any, name: str, value: Any) -> None:
        old = obj.__dict__[name] if name in getattr(obj, "__dict__", {}) else getattr(obj, name)
        self.undo.append((obj, name, old))
        setattr(obj, name, value)

    def restore(self) -> None:
        for target, name, old in reversed(self.undo):
            if isinstance(target, dict):
                target[name] = old
            else:
                setattr(target, name, old)
        self.undo.clear()


def install_clock(rb: _Rebinder, clock: SimClock) -> int:
    proxy = SimTime(clock)
    real_funcs = {getattr(_real_time, f): f for f in _TIME_FUNCS}
    n = 0
    for m in _sut_modules():
        ns = m.__dict__
        for name, val in list(ns.items()):
            if val is _real_time:
                rb.set(ns, name, proxy)
                n += 1
            else:
                try:
                    fname = real_funcs.get(val)
                except TypeError:
                    fname = None
                if fname is not None:
                    rb.set(ns, name, getattr(proxy, fname))
                    n += 1
    return n


# --------------------------------------------------------------------------------------
# resource usage
# --------------------------------------------------------------------------------------
class _SimRusage:
    """What the SUT's statistics see instead of the real peak RSS: the real one depends on the history of the worker
    process, and its decimal representation ends up (as text of varying length) inside the autosave file."""

    ru_maxrss = 123456

    def __getattr__(self, name: str) -> Any:
        return 0


def install_rusage(rb: _Rebinder) -> int:
    try:
        import resource
    except ImportError:  # pragma: no cover
        return 0
    real = resource.getrusage
    fake = lambda who=0: _SimRusage()  # noqa: E731
    n = 0
    for m in _sut_modules():
        ns = m.__dict__
        for name, val in list(ns.items()):
            if val is real:
                rb.set(ns, name, fake)
                n += 1
            elif val is resource:
                class _Res:
                    def __getattr__(self, nm: str) -> Any:
                        return fake if nm == "getrusage" else getattr(resource, nm)

                rb.set(ns, name, _Res())
                n += 1
    return n


# --------------------------------------------------------------------------------------
# uuid
# --------------------------------------------------------------------------------------
class SimUUID:
    def __init__(self, seed: int):
        self.base = (seed & 0xFFFFFFFF) << 64
        self.n = 0

    def _next(self, version: int) -> _uuid_mod.UUID:
        self.n += 1
        return _uuid_mod.UUID(int=self.base | self.n, version=version)

    def uuid1(self, node: Any = None, clock_seq: Any = None) -> _uuid_mod.UUID:
        return self._next(1)

    def uuid4(self) -> _uuid_mod.UUID:
        return self._next(4)


# --------------------------------------------------------------------------------------
# disk
# --------------------------------------------------------------------------------------
class _SimFile:
    """Wraps a real unbuffered binary file opened for writing inside the sim directory;
    every write/flush/close is an interception point."""

    def __init__(self, disk: "SimDisk", real: Any, path: str):
        self._disk = disk
        self._real = real
        self._path = path
        self._closed = False

    def write(self, b: Any) -> int:
        data = bytes(b)
        self._disk.point("write", "before", self._path, pending=data)
        n = self._real.write(data)
        self._disk.point("write", "after", self._path)
        return n

    def flush(self) -> None:
        self._real.flush()

    def close(self) -> None:
        if self._closed:
            return
        self._closed = True
        self._disk.point("close", "before", self._path)
        self._real.close()
        self._disk.file_completed(self._path)
        self._disk.point("close", "after", self._path)

    def __enter__(self) -> "_SimFile":
        return self

    def __exit__(self, *a: Any) -> None:
        self.close()

    def __getattr__(self, name: str) -> Any:
        return getattr(self._real, name)

    def __del__(self) -> None:
        try:
            if not self._closed:
                self._real.close()
        except Exception:
            pass


class _SimRaw(io.RawIOBase):
    """The kernel-level side of a file opened for writing inside the sim directory.  The SUT gets Python's own
    BufferedWriter on top of it (with the buffer size the scheduler chose for this incarnation), so what reaches the
    disk - and when - is decided by CPython's real buffering logic; every raw write / close is an interception point,
    and bytes still sitting in the user-space buffer are not in a crash world, exactly as for a killed process."""

    def __init__(self, disk: "SimDisk", real: Any, path: str):
        super().__init__()
        self._disk = disk
        self._real = real
        self._path = path

    def writable(self) -> bool:
        return True

    def seekable(self) -> bool:
        return True

    def readable(self) -> bool:
        return False

    def fileno(self) -> int:
        return self._real.fileno()

    def seek(self, *a: Any) -> int:
        return self._real.seek(*a)

    def tell(self) -> int:
        return self._real.tell()

    def truncate(self, *a: Any) -> int:
        return self._real.truncate(*a)

    def write(self, b: Any) -> int:
        data = bytes(b)
        if not self._disk.alive:
            return len(data)  # a buffer flushed by the garbage collector after the incarnation ended: dropped
        self._disk.point("write", "before", self._path, pending=data)
        n = self._real.write(data)
        self._disk.point("write", "after", self._path)
        return n

    def close(self) -> None:
        if self.closed:
            return
        if not self._disk.alive:
            try:
                self._real.close()
            finally:
                super().close()
            return
        self._disk.point("close", "before", self._path)
        try:
            self._real.close()
        finally:
            super().close()
        self._disk.file_completed(self._path)
        self._disk.point("close", "after", self._path)


class SimDisk:
    """A real directory + numbered interception points.

    faults: {point_index: ("crash",) | ("error", errno)}; an "error" fault at a *before*
    point makes the operation raise OSError instead of being executed.
    """

    WRITE_OPS = ("w", "a", "x", "+")

    def __init__(self, directory: str, log: EventLog):
        self.dir = os.path.realpath(directory)
        self.log = log
        self.n = 0
        self.record_worlds = False
        self.worlds: list[dict] = []
        self.torn_lengths: Callable[[int], list[int]] = lambda size: []
        self.faults: dict[int, tuple] = {}
        self.fired: dict[str, int] = {}
        self.fired_at: list[dict] = []
        self.on_point: Optional[Callable[[dict], None]] = None
        self.on_file_completed: Optional[Callable[[str, bytes], None]] = None
        self.context: Callable[[], dict] = lambda: {}
        self.opcount: dict[str, int] = {}
        self._blobs: dict[bytes, bytes] = {}
        self.alive = True
        # size of the user-space write buffer of files the SUT opens with default buffering.  CPython takes it from
        # st_blksize (4 KiB ... 1 MiB depending on the file system), so it is a knob the scheduler may turn per incarnation
        self.buffer_size = io.DEFAULT_BUFFER_SIZE

    # ---- helpers
    def inside(self, path: Any) -> bool:
        try:
            p = os.fspath(path)
        except TypeError:
            return False
        if isinstance(p, bytes):
            p = os.fsdecode(p)
        if not os.path.isabs(p):
            p = os.path.join(os.getcwd(), p)
        p = os.path.normpath(p)
        return p == self.dir or p.startswith(self.dir + os.sep)

    def snapshot(self) -> dict[str, bytes]:
        out = {}
        for name in sorted(os.listdir(self.dir)):
            fp = os.path.join(self.dir, name)
            if os.path.isfile(fp) and not os.path.islink(fp):
                with io.FileIO(fp, "r") as f:
                    data = f.read()
                # consecutive interception points see the same files: keep one bytes object per distinct content
                # (thousands of crash worlds of a run with multi-megabyte snapshots once took 10 GB and the OOM killer)
                key = hashlib.sha256(data).digest()
                out[name] = self._blobs.setdefault(key, data)
            else:
                out[name] = None  # directory / special: presence only
        return out

    def file_completed(self, path: str) -> None:
        if self.on_file_completed is not None:
            try:
                with io.FileIO(path, "r") as f:
                    data = f.read()
            except OSError:
                return
            self.on_file_completed(os.path.basename(path), data)

    def point(self, op: str, phase: str, path: Any, pending: bytes | None = None, dst: Any = None) -> None:
        n = self.n
        self.n += 1
        name = os.path.basename(os.fspath(path))
        key = f"{op}:{phase}"
        self.opcount[key] = self.opcount.get(key, 0) + 1
        rec = {"n": n, "op": op, "phase": phase, "name": name}
        if dst is not None:
            rec["dst"] = os.path.basename(os.fspath(dst))
        if pending is not None:
            rec["pending"] = len(pending)
        self.log.add("fsop", **rec)
        if self.record_worlds:
            ctx = self.context()
            files = self.snapshot()
            self.worlds.append({**rec, **ctx, "torn": None, "files": files})
            if pending is not None and phase == "before":
                base = files.get(name) or b""
                for k in self.torn_lengths(len(pending)):
                    if 0 < k < len(pending):
                        f2 = dict(files)
                        f2[name] = base + pending[:k]
                        self.worlds.append({**rec, **ctx, "torn": k, "files": f2})
        if self.on_point is not None:
            self.on_point(rec)
        fault = self.faults.get(n)
        if fault is not None and not (fault[0] == "error" and phase != "before"):
            kind = fault[0]
            self.fired[kind] = self.fired.get(kind, 0) + 1
            self.fired_at.append({**self.context(), **rec})
            self.log.add("fault", n=n, fault=kind, arg=(fault[1] if len(fault) > 1 else None))
            if kind == "crash":
                raise SimCrash(f"crash at fs point {n} ({op}:{phase} {name})")
            if kind == "interrupt":
                # the user's Ctrl-C (or any asynchronous exception) arriving at this instant: unlike a crash the process
                # unwinds - context managers close files, finally blocks run - before it dies
                intr = KeyboardInterrupt(f"interrupt at fs point {n} ({op}:{phase} {name})")
                intr._emusim_injected = True  # type: ignore[attr-defined]
                raise intr
            if kind == "error" and phase == "before":
                code = fault[1]
                err = OSError(code, os.strerror(code), os.fspath(path))
                err._emusim_injected = True  # type: ignore[attr-defined]
                raise err


def install_disk(rb: _Rebinder, disk: SimDisk) -> None:
    real_open = builtins.open
    real_io_open = io.open

    def _is_write_mode(mode: str) -> bool:
        return any(c in mode for c in SimDisk.WRITE_OPS)

    def sim_open(file: Any, mode: str = "r", buffering: int = -1, *a: Any, **kw: Any) -> Any:
        if isinstance(file, int) or not disk.inside(file):
            return real_open(file, mode, buffering, *a, **kw)
        if _is_write_mode(mode) and "b" in mode:
            disk.point("open_w", "before", file)
            real = real_open(file, mode, 0, *a, **kw)
            disk.point("open_w", "after", file)
            if "+" in mode:
                return _SimFile(disk, real, os.fspath(file))  # read/write handles: unbuffered, every write is a point
            raw = _SimRaw(disk, real, os.fspath(file))
            if buffering == 0:
                return raw
            return io.BufferedWriter(raw, buffer_size=buffering if buffering > 1 else disk.buffer_size)
        if _is_write_mode(mode):
            # text-mode writes inside the sim dir (log files): not part of any protocol
            return real_open(file, mode, buffering, *a, **kw)
        disk.point("open_r", "before", file)
        return real_open(file, mode, buffering, *a, **kw)

    rb.setattr(builtins, "open", sim_open)
    rb.setattr(io, "open", sim_open)

    def wrap2(modobj: Any, fname: str, op: str) -> None:
        real = getattr(modobj, fname)

        def w(src: Any, dst: Any, *a: Any, **kw: Any) -> Any:
            if not (disk.inside(src) or disk.inside(dst)):
                return real(src, dst, *a, **kw)
            disk.point(op, "before", src, dst=dst)
            r = real(src, dst, *a, **kw)
            if disk.inside(dst):
                disk.file_completed(os.fspath(dst))  # a file became visible under a new name
            disk.point(op, "after", src, dst=dst)
            return r

        w.__name__ = fname
        rb.setattr(modobj, fname, w)

    def wrap1(modobj: Any, fname: str, op: str, after: bool = True) -> None:
        real = getattr(modobj, fname)

        def w(path: Any, *a: Any, **kw: Any) -> Any:
            if isinstance(path, int) or not disk.inside(path):
                return real(path, *a, **kw)
            disk.point(op, "before", path)
            r = real(path, *a, **kw)
            if after:
                disk.point(op, "after", path)
            return r

        w.__name__ = fname
        rb.setattr(modobj, fname, w)

    wrap2(os, "rename", "rename")
    wrap2(os, "replace", "replace")
    wrap2(os, "link", "link")
    wrap2(shutil, "move", "move")
    wrap2(shutil, "copyfile", "copyfile")
    wrap1(os, "remove", "remove")
    wrap1(os, "unlink", "remove")
    wrap1(os.path, "getsize", "getsize", after=False)
    wrap1(os, "truncate", "truncate")


# --------------------------------------------------------------------------------------
# RNG
# --------------------------------------------------------------------------------------
def rng_snapshot() -> dict:
    return {
        "py": random.getstate(),
        "np": np.random.get_state(),
        "torch": torch.get_rng_state().clone(),
    }


def rng_restore(s: dict) -> None:
    random.setstate(s["py"])
    np.random.set_state(s["np"])
    torch.set_rng_state(s["torch"])


def rng_seed(py: int, npseed: int, tseed: int) -> None:
    random.seed(py)
    np.random.seed(npseed % (2**32))
    torch.manual_seed(tseed)


# --------------------------------------------------------------------------------------
# qubit order
# --------------------------------------------------------------------------------------
def install_permutation(rb: _Rebinder, chooser: Callable[[torch.Tensor, Callable], list[int]], log: EventLog) -> None:
    """Replace optimatrix.minimize_bandwidth by `chooser(matrix, real_fn) -> list[int]`."""
    import emu_mps.optimatrix as optimat

    real = optimat.minimize_bandwidth

    def fake_minimize_bandwidth(matrix: torch.Tensor, *a: Any, **kw: Any) -> torch.Tensor:
        perm = chooser(matrix, lambda: real(matrix, *a, **kw))
        log.add("perm", perm=[int(x) for x in perm])
        return torch.tensor([int(x) for x in perm])

    for m in _sut_modules():
        ns = m.__dict__
        for name, val in list(ns.items()):
            if val is real:
                rb.set(ns, name, fake_minimize_bandwidth)


# --------------------------------------------------------------------------------------
# method wrappers (trace / scheduling points)
# --------------------------------------------------------------------------------------
def wrap_method(rb: _Rebinder, cls: type, name: str, before: Callable | None = None, after: Callable | None = None, required: bool = True) -> bool:
    if name not in cls.__dict__:
        if required:
            raise HarnessError(f"{cls.__name__}.{name} not found: the harness needs it")
        return False
    raw = cls.__dict__[name]
    is_static = isinstance(raw, staticmethod)
    fn = raw.__func__ if is_static else raw

    def wrapper(*args: Any, **kw: Any) -> Any:
        tok = before(*args, **kw) if before is not None else None
        r = fn(*args, **kw)
        if after is not None:
            after(tok, r, *args, **kw)
        return r

    wrapper.__name__ = getattr(fn, "__name__", name)
    wrapper.__wrapped__ = fn  # type: ignore[attr-defined]
    rb.setattr(cls, name, staticmethod(wrapper) if is_static else wrapper)
    return True


# --------------------------------------------------------------------------------------
# incarnation
# --------------------------------------------------------------------------------------
SIM_ROOT = os.environ.get("EMUSIM_TMP", "/dev/shm/emusim")


class Incarnation:
    def __init__(self, world: "World", index: int, directory: str):
        self.world = world
        self.index = index
        self.dir = directory
        self.rb = _Rebinder()
        self.disk = SimDisk(directory, world.log)


class World:
    """One simulated run: a clock, an event log, and a sequence of incarnations."""

    def __init__(self, run_id: str, epoch: float = 1.7e9, keep_events: bool = True):
        self.run_id = run_id
        self.log = EventLog(keep=keep_events)
        self.clock = SimClock(epoch)
        self.root = os.path.join(SIM_ROOT, f"{os.getpid():08d}_{run_id}")  # fixed length: the path is part of the pickled solver state, so its length must not vary
        self.n_inc = 0
        self.uuid_seed = 1
        self.buffer_size: int | None = None  # write-buffer size of the SUT's files in every incarnation of this run

    @contextmanager
    def incarnation(
        self,
        files: dict[str, bytes] | None = None,
        seeds: tuple[int, int, int] | None = None,
        rng_state: dict | None = None,
        perm_chooser: Callable | None = None,
        fs: bool = True,
        buffer_size: int | None = None,
    ):
        idx = self.n_inc
        self.n_inc += 1
        self.log.inc = idx
        d = os.path.join(self.root, f"i{idx:03d}", "cwd")
        os.makedirs(d, exist_ok=True)
        for name, data in (files or {}).items():
            if data is None:
                os.makedirs(os.path.join(d, name), exist_ok=True)
            else:
                with io.FileIO(os.path.join(d, name), "w") as f:
                    f.write(data)
        inc = Incarnation(self, idx, d)
        if buffer_size or self.buffer_size:
            inc.disk.buffer_size = int(buffer_size or self.buffer_size)
        old_cwd = os.getcwd()
        saved_rng = rng_snapshot()
        simuuid = SimUUID(self.uuid_seed * 1000 + idx)
        try:
            os.chdir(d)
            install_clock(inc.rb, self.clock)
            install_rusage(inc.rb)
            if fs:
                install_disk(inc.rb, inc.disk)
            inc.rb.setattr(_uuid_mod, "uuid1", simuuid.uuid1)
            inc.rb.setattr(_uuid_mod, "uuid4", simuuid.uuid4)
            if perm_chooser is not None:
                install_permutation(inc.rb, perm_chooser, self.log)
            if rng_state is not None:
                rng_restore(rng_state)
            elif seeds is not None:
                rng_seed(*seeds)
            self.log.add("incarnation", index=idx, files=sorted((files or {}).keys()))
            yield inc
        finally:
            inc.disk.alive = False
            inc.rb.restore()
            os.chdir(old_cwd)
            rng_restore(saved_rng)
            shutil.rmtree(os.path.dirname(d), ignore_errors=True)

    def close(self) -> None:
        shutil.rmtree(self.root, ignore_errors=True)
