"""Tape minimisation.  Any list of [label, value] entries is a valid input to a run
(replay clamps values and defaults when the tape runs out), so shrinking is plain list
surgery; a candidate is kept only when the run still shows the same violation signature.
The tape finally reported is the one *re-recorded* by the last interesting run, so it is
self-consistent (labels and values are exactly what that run consumed)."""
from __future__ import annotations

import time
from typing import Callable


def _simplest(v):
    if isinstance(v, bool):
        return False
    if isinstance(v, int):
        return 0
    if isinstance(v, float):
        return 0.0
    return v


def shrink(rec: list, test: Callable[[list], tuple[bool, dict]], max_execs: int = 200, max_s: float = 120.0) -> tuple[list, dict, int]:
    t0 = time.time()
    execs = 0
    ok, res = test(rec)
    execs += 1
    if not ok:
        raise RuntimeError("the recorded tape does not reproduce its own violation (nondeterminism in the harness?)")
    best, best_res = [list(e) for e in res["tape"]], res

    def budget() -> bool:
        return execs < max_execs and time.time() - t0 < max_s

    def attempt(cand: list) -> bool:
        nonlocal best, best_res, execs
        if not budget():
            return False
        execs += 1
        good, r = test(cand)
        if good:
            new = [list(e) for e in r["tape"]]
            if len(new) < len(best) or _weight(new) < _weight(best):
                best, best_res = new, r
                return True
        return False

    improved = True
    rounds = 0
    while improved and budget() and rounds < 4:
        improved = False
        rounds += 1
        # 1. truncate the tail (exhausted tape = simplest values)
        lo, hi = 0, len(best)
        while lo < hi and budget():
            mid = (lo + hi) // 2
            if attempt(best[:mid]):
                hi = min(mid, len(best))
                improved = True
            else:
                lo = mid + 1
        # 2. zero blocks, then delete blocks
        size = max(1, len(best) // 2)
        while size >= 1 and budget():
            i = 0
            while i < len(best) and budget():
                blk = best[i : i + size]
                if any(e[1] != _simplest(e[1]) for e in blk):
                    cand = best[:i] + [[e[0], _simplest(e[1])] for e in blk] + best[i + size :]
                    if attempt(cand):
                        improved = True
                        continue
                i += size
            size //= 2
        # 3. shrink individual numbers towards zero
        for i in range(len(best)):
            if not budget():
                break
            if i >= len(best):
                break
            v = best[i][1]
            if isinstance(v, bool) or not isinstance(v, (int, float)) or v == 0:
                continue
            for c in ([v // 2, v - 1] if isinstance(v, int) else [v / 2.0, float(int(v))]):
                if c == v:
                    continue
                cand = [list(e) for e in best]
                cand[i][1] = c
                if attempt(cand):
                    improved = True
                    break
    return best, best_res, execs


def _weight(t: list) -> float:
    w = 0.0
    for _, v in t:
        if isinstance(v, bool):
            w += 1.0 if v else 0.0
        elif isinstance(v, (int, float)):
            w += min(abs(float(v)), 1e6) / 1e6 + (1.0 if v else 0.0)
    return w
