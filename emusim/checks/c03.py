"""C03 - results are independent of atom labelling and of the internal qubit order.

With the default config every emu-mps run picks its internal site order with unseeded
torch.randperm restarts (optimatrix.minimize_bandwidth): a run-time-chosen order that must
never show in the output - the library's analogue of hash-map iteration order.  The
simulator owns that choice: the seam returns any permutation (identity, reversal, the real
optimiser's answer, arbitrary), the same scenario is run under several of them, with the
register re-inserted / relabelled, and interrupted by crash + resume; the Results must
agree and always list atoms in register order."""
from __future__ import annotations

import math
from typing import Any

import numpy as np

from .. import mpsrun as M
from .. import results as R
from .. import scenario as S
from ..seams import World
from ..tape import Tape
from . import _crash as C

ID = "C03"
LEVEL = "exploration"
# order-dependent TDVP integration error stays far below this for the workloads generated here
# (calibrated: see evidence 'calibration_max_discrepancy'); a misdirected per-atom drive moves >= 0.05
TOL = 2e-3
TOL_CLOSE_PAIR = 3e-2
RULE = (
    "One case = one (scenario, internal order / relabelling / resume) comparison against the identity-order run of the same "
    "scenario. Scenarios have distinguishable atoms (local-channel targets, DMM weights, SLM masks, irregular geometry, dark "
    "atoms, pi-pulse on one chosen atom) on 2-6 atoms and (5 % / 15 % of the scenarios in the quick / thorough tier) on 8-9 / 8-16 atoms, weakly entangling (E*dt <= 0.05, truncation off). Non-trivial iff the "
    "internal order or the relabelling is not the identity and some per-atom quantity differs between atoms by >= 0.05; distinct "
    "by (N, permutation cycle type, drive kind, observable set, variant = order|relabel|resume|safeguard)."
)
COMPONENTS = {
    "real": ["pulser sampling", "PulserData", "MPSBackendImpl.__init__/init_dark_qubits/init_initial_state/_get_interaction_matrix", "permute_results", "MPSConfig.check_permutable_observables", "MPSBackend.resume", "all TDVP numerics"],
    "stubbed": ["optimatrix.minimize_bandwidth (returns the scheduler's permutation; the real optimiser's answer is one of the choices)", "clock", "uuid", "RNG seeding", "process death for the resume variant"],
}
PROBES = ["non_identity_order_with_per_atom_drive", "relabelled_register", "reinserted_register", "resume_under_non_identity_order", "dark_atoms_present", "slm_mask_present", "dmm_present", "pi_pulse_bitstring", "non_permutable_observable_safeguard", "real_optimiser_order", "user_initial_state", "register_of_8_to_16_atoms", "observable_with_tag_suffix"]
ASSUMPTIONS = [
    "two-site TDVP started from a product state projects out part of every coupling between NON-adjacent sites until the bonds have grown (5e-3 on <n_i n_j> for a 4.6 rad/us coupling across one site, independent of dt, measured against emu-sv): strongly interacting, long workloads (SLM mask with a blockaded neighbour, blockade, user matrices) keep their strong couplings between neighbours of the register and use only adjacency-preserving orders (mirror image, the real optimiser's answer); their per-atom tolerance is 3e-2 (close pair) resp. 2e-3, the largest discrepancy seen on the unchanged tree is 1e-5",
    "comparison tolerance 2e-3 absolute on occupations / correlations, 2e-3 x |H| on energies and 2e-3 x |H|^2 on energy second moment / variance (|H| = an upper bound on the energy scale computed from the scenario, SLM detuning included); the two-site TDVP projection error depends on the site order (the largest occupation discrepancy seen over seeds 0-8 was 7e-5, with an SLM mask), a misdirected per-atom drive moves an occupation by >= 0.05; workloads keep the order-dependent TDVP error orders of magnitude below it (bond dimension uncapped, precision 1e-8, E*dt <= 0.05) and a misdirected per-atom drive changes some occupation by >= 0.05",
    "bit strings are compared exactly only in the pi-pulse workload (deterministic outcome); elsewhere per position against the occupations of the same run (exact binomial test, family-wise level 1e-9 per invocation, noiseless runs only)",
]


def plan(tier: str) -> dict:
    if tier == "quick":
        return {"runs": 130, "wall_s": 170, "task_timeout": 500}
    return {"runs": 2600, "wall_s": 1700, "task_timeout": 1200}


def gen_case(tape: Tape, tier: str) -> dict:
    kind = tape.weighted(["local", "dmm", "slm", "pi", "geometry", "dark", "initial", "blockade", "usermat"], [0.2, 0.12, 0.13, 0.14, 0.05, 0.1, 0.07, 0.11, 0.08], "drive_kind")
    n = tape.int(2, 5 if tier == "quick" else 6, "n_atoms")
    if kind in ("slm", "dark", "blockade"):
        n = max(n, 3)
    if kind in ("slm", "blockade") and tier == "quick":
        n = 3  # these runs last 300-400 steps; on three sites two-site TDVP is exact to 1e-9 whatever the order
    if kind == "usermat":
        n = min(n, 3 if tier == "quick" else 4)  # 400-650 steps
    # registers beyond the reach of a dense reference (the oracle is run-vs-run, so none is needed): 8-16 atoms,
    # >= 9.5 um apart, short sequences, so that the MPS stays weakly entangled whatever the internal order
    large = kind in ("local", "pi", "dmm", "geometry", "initial") and tape.bool(0.05 if tier == "quick" else 0.15, "large")
    if large:
        n = tape.int(8, 9 if tier == "quick" else 16, "n_large")
    # irregular geometry, atoms >= 8.5 um apart (U <= 14 rad/us)
    pts: list[tuple[float, float]] = []
    tries = 0
    close_pair = kind == "blockade" or (kind == "slm" and tape.bool(0.7, "slm_close_pair"))
    box = (10.0 + 5.0 * n) if not close_pair else (30.0 + 10.0 * n)
    dmin = 8.5 if not close_pair else 15.0
    if large:
        box, dmin = 14.0 * math.sqrt(n) + 10.0, 9.5
    while len(pts) < n:
        x, y = round(tape.float(0, box, "x"), 2), round(tape.float(0, box, "y"), 2)
        tries += 1
        if all(math.hypot(x - a, y - b) >= dmin for a, b in pts):
            pts.append((x, y))
        elif tries > 300:
            pts.append((max(p[0] for p in pts) + dmin + 0.5, 0.0))
    pair = None
    if close_pair:
        # one strongly interacting pair (8.6-9.2 um, U = 9..13 rad/us) among otherwise distant atoms: which two atoms
        # interact is then clearly visible in the occupations (blockade), so a mis-permuted interaction matrix shows
        i = tape.int(0, n - 1, "pair_i")
        tape.int(0, n - 2, "pair_j")  # (draw kept so that later draws do not shift)
        j = i + 1 if i < n - 1 else i - 1  # neighbours in register order: see `strong` below
        ang = tape.float(0.0, 2 * math.pi, "pair_angle")
        r = tape.float(8.6, 9.2, "pair_dist")
        for k_try in range(24):
            a_ = ang + k_try * (math.pi / 12)
            cand = (round(pts[i][0] + r * math.cos(a_), 2), round(pts[i][1] + r * math.sin(a_), 2))
            if all(math.hypot(cand[0] - px, cand[1] - py) >= 14.0 for m, (px, py) in enumerate(pts) if m not in (i, j)):
                pts[j] = cand
                pair = (i, j)
                break
    labels = [f"q{i}" for i in range(n)]
    atoms = [[labels[i], pts[i][0], pts[i][1]] for i in range(n)]
    T = tape.int(20, 90, "T") if not close_pair else tape.int(70, 100, "T")
    if large:
        T = min(T, 20 + T % 21)
    dt = float(tape.choice([1, 2, 3], "dt")) if not close_pair else float(tape.choice([1, 2], "dt"))
    if kind == "blockade":
        T = 130 + 2 * T  # 270-330 ns at 7-10 rad/us: a pulse area of 2-3 rad, so that the blockade of the close pair shows
        dt = 1.0
    if kind == "usermat":
        T = 150 + 2 * T  # 190-330 ns: long enough for the *sign* of a coupling to show in the occupations
        dt = 0.5  # ... and a fine step: over such a run the order-dependent splitting error at dt = 3 ns reaches 1e-2
    if kind == "slm":
        dt = 1.0  # the mask is a detuning of -10 x the first pulse's amplitude: the largest energy of the scenario
    ops: list[dict] = []
    scn: dict[str, Any] = {"atoms": atoms, "xy": False, "modulation": False, "has_local": False, "local_init": None, "dmm": None, "slm": None, "ops": ops}
    cfg_extra: dict[str, Any] = {}
    g_amp = round(tape.float(2.0, 8.0, "g_amp"), 3) if not close_pair else round(tape.float(7.0, 10.0, "g_amp"), 3)
    if kind == "slm":
        g_amp = round(0.8 + 0.7 * (g_amp % 1.0), 3)  # 0.8 .. 1.5 rad/us while the mask is on (mask detuning <= 15 rad/us)
    g_det = round(tape.float(-3.0, 3.0, "g_det"), 3) if not close_pair else round(tape.float(-1.0, 1.0, "g_det"), 3)
    if kind == "usermat":
        g_det = round(math.copysign(2.0 + abs(g_det), g_det if g_det else 1.0), 3)  # |delta| in 2..5: U and -U are told apart
    if kind == "pi":
        # pi pulse on one atom through the local channel, no interaction: the outcome is deterministic
        tgt = tape.int(0, n - 1, "pi_target")
        scn.update(has_local=True, local_init=labels[tgt])
        ops.append({"op": "pulse", "ch": "l", "dur": T, "amp": {"k": "const", "v": round(math.pi / (T * 1e-3), 9)}, "det": {"k": "const", "v": 0.0}, "phase": 0.0})
        cfg_extra["interaction_matrix"] = [[0.0] * n for _ in range(n)]
        cfg_extra["pi_target"] = tgt
    else:
        ops.append({"op": "pulse", "ch": "g", "dur": T, "amp": {"k": "const", "v": g_amp}, "det": {"k": "const", "v": g_det}, "phase": round(tape.float(0, 6.28, "phase"), 3)})
    if kind == "local":
        tgt = tape.int(0, n - 1, "l_target")
        scn.update(has_local=True, local_init=labels[tgt])
        # area >= 0.5 rad on the target so that a misdirected drive is visible
        amp = round(max(tape.float(4.0, 12.0, "l_amp"), 0.6 / (T * 1e-3) if T * 1e-3 * 12 > 0.6 else 12.0), 3)
        ops.append({"op": "pulse", "ch": "l", "dur": T, "amp": {"k": "const", "v": amp}, "det": {"k": "ramp", "a": -2.0, "b": 2.0}, "phase": 0.0})
        if tape.bool(0.4, "retarget") and n > 2:
            t2 = (tgt + 1 + tape.int(0, n - 2, "t2")) % n
            ops.append({"op": "target", "q": labels[t2]})
            ops.append({"op": "pulse", "ch": "l", "dur": tape.int(16, 40, "T2"), "amp": {"k": "const", "v": amp}, "det": {"k": "const", "v": 0.0}, "phase": 0.0})
    if kind == "dmm":
        k = tape.int(1, n - 1, "dmm_k")
        who = tape.permutation(n, "dmm_who")[:k]
        scn["dmm"] = {labels[i]: round(tape.float(0.3, 1.0, f"w{i}"), 2) for i in who}
        ops.append({"op": "dmm", "dur": T, "wave": {"k": "const", "v": -round(tape.float(8.0, 25.0, "dmm_v"), 3)}})
    if kind == "slm":
        k = tape.int(1, n - 2, "slm_k")
        scn["slm"] = [labels[i] for i in tape.permutation(n, "slm_who")[:k]]
        if pair is not None:
            scn["slm"] = [labels[pair[0]]] + [l for l in scn["slm"] if l not in (labels[pair[0]], labels[pair[1]])][: k - 1]
        # the mask lasts as long as the first global pulse: a second pulse makes the interaction matrix switch from
        # "masked" to "full" in mid-run (Hamiltonian rebuilt at that step); with a close pair of which one atom is
        # masked, the blockade of that pair must switch on exactly then
        if tape.bool(0.7, "slm_second_pulse") or pair is not None:
            # area 1.7 .. 3.2 rad: alone, an atom ends up mostly excited; blockaded by its neighbour it does not - whether
            # the interaction of the formerly masked atom is switched on at the end of the mask shows at the 0.1 level
            ops.append({"op": "pulse", "ch": "g", "dur": 180 + 2 * tape.int(30, 70, "T_after_slm"), "amp": {"k": "const", "v": round(tape.float(7.0, 10.0, "g_amp2"), 3)}, "det": {"k": "const", "v": round(tape.float(-1.0, 1.0, "g_det2"), 3)}, "phase": 0.0})
    if kind == "usermat":
        # a user-supplied interaction matrix with couplings of both signs (attractive and repulsive): which atoms
        # interact how is visible only through it, and the ordering optimiser is handed that very tensor
        # ... coupling consecutive atoms of the register only (see `strong` below)
        m = [[0.0] * n for _ in range(n)]
        for i in range(n - 1):
            v = round(tape.float(1.0, 8.0, f"u{i}"), 3) * (-1.0 if tape.bool(0.5, f"neg{i}") else 1.0)
            m[i][i + 1] = m[i + 1][i] = v
        if not any(x < 0 for row in m for x in row):
            m[0][1] = m[1][0] = -abs(m[0][1])
        cfg_extra["interaction_matrix"] = m
    if kind == "dark":
        cfg_extra["noise"] = {"state_prep_error": round(tape.float(0.2, 0.5, "prep"), 2), "runs": 1, "samples_per_run": 1}
    if kind == "initial":
        bits = "".join("r" if tape.bool(0.5, f"b{i}") else "g" for i in range(n))
        if "r" not in bits:
            bits = "r" + bits[1:]
        cfg_extra["initial_bits"] = bits
    obs_kinds = ["occupation", "correlation_matrix", "energy", "energy_variance", "energy_second_moment"]
    times = sorted({1.0} | {round(tape.float(0.1, 0.9, f"et{i}"), 3) for i in range(tape.int(0, 2, "n_times"))})
    obs = [{"kind": k, "times": times} for k in obs_kinds if k == "occupation" or tape.bool(0.6, f"obs_{k}")]
    obs.append({"kind": "bitstrings", "times": [1.0], "shots": 200 if kind != "pi" else 50})
    # a second instance of a per-atom observable under its own tag (tag_suffix): it must be un-permuted like the first
    if tape.bool(0.3, "suffixed_obs"):
        sk = tape.choice(["occupation", "correlation_matrix", "bitstrings"], "suffixed_kind")
        so: dict[str, Any] = {"kind": sk, "times": [1.0], "suffix": "x"}
        if sk == "bitstrings":
            so["shots"] = 50
        obs.append(so)
    cfg: dict[str, Any] = {"backend": "mps", "dt": dt, "observables": obs, "default_times": None, "precision": 1e-8, "max_bond_dim": 1024, "optimize": True, "solver": "tdvp", "autosave_dt": 11.0}
    for k in ("interaction_matrix", "noise"):
        if k in cfg_extra:
            cfg[k] = cfg_extra[k]
    return {"scn": scn, "cfg": cfg, "T": float(S.build_sequence(scn).get_duration()), "n": n, "kind": kind, "extra": cfg_extra, "solver": "tdvp", "large": large, "close_pair": bool(close_pair), "long": bool(close_pair) or kind == "usermat",
            # Strongly interacting atoms driven for hundreds of ns.  Two-site TDVP starts from a product state (bond dimension
            # 1), where the tangent space only contains changes on ADJACENT sites: a coupling n_i n_j between non-adjacent
            # sites is partly projected out until the bonds have grown - an error of the method that does not vanish with dt
            # (5e-3 on <n_i n_j> for a 4.6 rad/us coupling across one site, measured against emu-sv, which the adjacent and
            # the mirrored order match to 1e-9) and that depends on the order.  It says nothing about the permutation
            # book-keeping this property is about, so these workloads keep the strong couplings between neighbours of the
            # register and only use orders that preserve adjacency: the mirror image and the real optimiser's answer.
            "strong": bool(close_pair) or kind == "usermat"}


def cycle_type(p: list[int]) -> str:
    seen, cyc = set(), []
    for i in range(len(p)):
        if i in seen:
            continue
        j, l = i, 0
        while j not in seen:
            seen.add(j)
            j = p[j]
            l += 1
        cyc.append(l)
    return "-".join(str(x) for x in sorted(cyc, reverse=True))


def run_under(world: World, case: dict, seeds: tuple, perm: list[int] | str, autosave: bool = False, policy: Any = None, record: bool = False, scn: dict | None = None, cfg_over: dict | None = None) -> M.Outcome:
    scn = scn or case["scn"]
    seq = S.build_sequence(scn)
    cfg = dict(case["cfg"])
    cfg.update(cfg_over or {})
    bits = cfg.pop("bits_override", None) or case["extra"].get("initial_bits")

    def fn(inc: Any) -> Any:
        import emu_mps

        c = dict(cfg)
        if not autosave:
            c["autosave_dt"] = None
        if bits:
            c["initial_state"] = emu_mps.MPS.from_state_amplitudes(eigenstates=("r", "g"), amplitudes={bits: 1.0})
        return emu_mps.MPSBackend(seq, config=S.make_config(scn, c)).run()

    cache: dict = {}

    def chooser(matrix: Any, real: Any) -> list[int]:
        if perm == "real":
            if "p" not in cache:
                cache["p"] = [int(x) for x in real()]
            return cache["p"]
        return list(perm)

    world.clock.policy = policy or (lambda n: 0.003)
    out = M.run_incarnation(world, fn, seeds=seeds, perm_chooser=chooser, record=record)
    out.perm_used = cache.get("p", perm)  # type: ignore[attr-defined]
    return out


def per_atom_spread(canon: dict) -> float:
    s = 0.0
    for t, v in canon["tags"].get("occupation", []):
        a = np.asarray(v, dtype=float)
        if a.size:
            s = max(s, float(a.max() - a.min()))
    return s


def energy_scale(case: dict) -> float:
    """Upper bound on |<H>| (rad/us) from the scenario: drives plus interactions."""
    pts = [(a[1], a[2]) for a in case["scn"]["atoms"]]
    n = len(pts)
    u = 0.0
    if case["cfg"].get("interaction_matrix") is None:
        for i in range(n):
            for j in range(i + 1, n):
                u += 5420158.53 / max(1e-9, math.hypot(pts[i][0] - pts[j][0], pts[i][1] - pts[j][1])) ** 6
    else:
        m = case["cfg"]["interaction_matrix"]
        u = sum(abs(m[i][j]) for i in range(n) for j in range(i + 1, n))
    drive = 0.0
    for o in case["scn"]["ops"]:
        if o["op"] == "pulse":
            vals = [abs(v) for w in (o["amp"], o["det"]) for v in ([w.get("v", 0.0), w.get("a", 0.0), w.get("b", 0.0)] + list(w.get("vals", [])))]
            drive += max(vals or [0.0]) * 1.5
        elif o["op"] == "dmm":
            drive += abs(o["wave"].get("v", 0.0))
    slm = 0.0
    if case["scn"].get("slm"):
        # pulser implements the SLM mask as a detuning of -10 x (max amplitude of the first global pulse) on the masked atoms
        first = next((o for o in case["scn"]["ops"] if o["op"] == "pulse" and o["ch"] == "g"), None)
        if first is not None:
            slm = 10.0 * max([abs(first["amp"].get("v", 0.0)), abs(first["amp"].get("a", 0.0)), abs(first["amp"].get("b", 0.0))] + [abs(v) for v in first["amp"].get("vals", [])]) * len(case["scn"]["slm"])
    return max(1.0, n * drive + u + slm)


def splitting_error_estimate(case: dict) -> float:
    """T E^3 dt^2 with E the largest single energy of the scenario: reported in the evidence as a descriptive number
    only.  (It was briefly used to scale the tolerance, on the wrong theory that the order-dependent error is a
    splitting error; it is a projection error, see the `strong` flag in gen_case.)"""
    pts = [(a[1], a[2]) for a in case["scn"]["atoms"]]
    n = len(pts)
    e = 0.0
    m = case["cfg"].get("interaction_matrix")
    for i in range(n):
        for j in range(i + 1, n):
            e = max(e, abs(m[i][j]) if m is not None else 5420158.53 / max(1e-9, math.hypot(pts[i][0] - pts[j][0], pts[i][1] - pts[j][1])) ** 6)
    first_amp = None
    for o in case["scn"]["ops"]:
        if o["op"] == "pulse":
            vals = [abs(v) for w in (o["amp"], o["det"]) for v in ([w.get("v", 0.0), w.get("a", 0.0), w.get("b", 0.0)] + list(w.get("vals", [])))]
            e = max([e] + vals)
            if first_amp is None and o["ch"] == "g":
                first_amp = max([abs(o["amp"].get(k, 0.0)) for k in ("v", "a", "b")] + [abs(v) for v in o["amp"].get("vals", [])])
        elif o["op"] == "dmm":
            e = max(e, abs(o["wave"].get("v", 0.0)))
    if case["scn"].get("slm") and first_amp:
        e = max(e, 10.0 * first_amp)
    e_ns = e * 1e-3  # rad/ns
    return float(case["T"]) * e_ns**3 * float(case["cfg"]["dt"]) ** 2


def tolerances(case: dict) -> dict:
    """Energies scale with |H|, second moment and variance with |H|^2: the comparison tolerance is relative."""
    h = energy_scale(case)
    # close-pair workloads: their far atoms still couple weakly (<= 0.5 rad/us) across non-adjacent sites; anything that
    # mis-wires the interaction of the close pair moves its occupations by 0.2-0.45
    t = TOL_CLOSE_PAIR if case.get("close_pair") else TOL
    f = t / TOL
    return {"occupation": t, "correlation_matrix": t, "occupation_x": t, "correlation_matrix_x": t, "energy": t * h, "energy_variance": t * h * h, "energy_second_moment": t * h * h, "_scale": f}


def compare_by_label(a: dict, b: dict, label_map: dict[str, str], tol: float, tol_by_tag: dict | None = None) -> list[str]:
    """b is the result for a relabelled / re-inserted register; label_map maps a-label -> b-label."""
    diffs: list[str] = []
    ia = {l: i for i, l in enumerate(a["atom_order"])}
    ib = {l: i for i, l in enumerate(b["atom_order"])}
    idx = [ib[label_map[l]] for l in a["atom_order"]]
    for tag in ("occupation", "correlation_matrix"):
        if tag in a["tags"] and tag in b["tags"]:
            for (ta, va), (tb, vb) in zip(a["tags"][tag], b["tags"][tag]):
                x, y = np.asarray(va, dtype=float), np.asarray(vb, dtype=float)
                y2 = y[idx] if y.ndim == 1 else y[np.ix_(idx, idx)]
                d = float(np.max(np.abs(x - y2))) if x.size else 0.0
                if d > tol:
                    diffs.append(f"{tag}@{ta!r}: per-label values differ by {d:.3e} after relabelling")
                    break
    for tag in ("energy", "energy_variance", "energy_second_moment"):
        if tag in a["tags"] and tag in b["tags"]:
            for (ta, va), (tb, vb) in zip(a["tags"][tag], b["tags"][tag]):
                d = float(np.max(np.abs(np.asarray(va, dtype=float) - np.asarray(vb, dtype=float))))
                if d > (tol_by_tag or {}).get(tag, tol * 10):
                    diffs.append(f"{tag}@{ta!r}: differs by {d:.3e} after relabelling")
                    break
    return diffs


def run_one(tape: Tape, tier: str, opts: dict) -> dict:
    V: list[dict] = []
    probes: dict[str, int] = {}
    cases: list[tuple[str, bool]] = []
    world = World("c03")
    world.uuid_seed = tape.int(1, 1000, "uuid_seed")
    evals = 0
    maxdisc = 0.0
    try:
        case = gen_case(tape, tier)
        n, kind = case["n"], case["kind"]
        seeds = (tape.seed32("seed_py"), tape.seed32("seed_np"), tape.seed32("seed_torch"))
        labels = [a[0] for a in case["scn"]["atoms"]]
        desc = {"kind": kind, "atoms": case["scn"]["atoms"], "ops": case["scn"]["ops"], "dmm": case["scn"]["dmm"], "slm": case["scn"]["slm"], "dt": case["cfg"]["dt"], "T": case["T"], "noise": case["cfg"].get("noise"), "initial_bits": case["extra"].get("initial_bits"), "observables": [o["kind"] for o in case["cfg"]["observables"]]}
        ident = list(range(n))
        tolt = tolerances(case)
        ref = run_under(world, case, seeds, ident)
        evals += 1
        if ref.error is not None:
            return {"violations": [], "cases": [], "evals": 1, "skipped": f"reference-raised:{ref.error_site}", "digest": world.log.digest(), "scenario": desc, "sim_ns": case["T"]}
        spread = per_atom_spread(ref.results)
        if tuple(ref.results["atom_order"]) != tuple(labels):
            V.append({"clause": "C03.atom-order", "site": "identity", "msg": f"atom_order {ref.results['atom_order']} != register order {labels} :: {desc}"})
        for k in ("dark", "slm", "dmm"):
            if kind == k:
                probes[{"dark": "dark_atoms_present", "slm": "slm_mask_present", "dmm": "dmm_present"}[k]] = 1
        if kind == "initial":
            probes["user_initial_state"] = 1
        if case.get("large"):
            probes["register_of_8_to_16_atoms"] = 1
        if any(o.get("suffix") for o in case["cfg"]["observables"]):
            probes["observable_with_tag_suffix"] = 1
        noiseless = not case["cfg"].get("noise")
        bv, nb = _bits_vs_occupation(ref.results, n, "identity", desc, noiseless)
        V.extend(bv)
        ncmp_bits = nb
        # pi pulse: the outcome is deterministic and reveals positions
        if kind == "pi":
            tgt = case["extra"]["pi_target"]
            V.extend(_pi_check(ref.results, tgt, n, "identity", desc))
            probes["pi_pulse_bitstring"] = 1
        # ---- internal orders
        perms: list[Any] = [ident[::-1]]
        for i in range(2 if tier == "quick" else 4):
            pr = tape.permutation(n, f"perm{i}")
            if not case.get("strong"):
                perms.append(pr)
        if case.get("strong"):
            perms.append("real")
        if tape.bool(0.25 if tier == "quick" else 0.4, "use_real") and "real" not in perms:
            perms.append("real")  # the real optimiser runs (on the tensor the solver uses), its answer is the order
        resume_choice = tape.int(0, len(perms) - 1, "resume_choice") if tape.bool(0.4, "with_resume") else -1
        for pi_, perm in enumerate(perms):
            do_resume = pi_ == resume_choice
            pol = None
            if do_resume:
                # (large registers: autosaving after every unit of work would record hundreds of snapshots of ~100 KB)
                _, pol = C.clock_policy(tape, 11.0, tape.choice(["period", "every"] if not (case.get("large") or case.get("long")) else ["period"], "rclock"))
                if case.get("large"):
                    pol = lambda k: 12.0 if k % 40 == 39 else 0.003  # noqa: E731  (snapshots of 8-16 atoms are megabytes each)
            out = run_under(world, case, seeds, perm, autosave=do_resume, policy=pol, record=do_resume)
            evals += 1
            used = getattr(out, "perm_used", perm)
            plist = list(used) if not isinstance(used, str) else ident
            nonid = plist != ident
            if perm == "real":
                probes["real_optimiser_order"] = 1
            site = f"order|{kind}"
            cases.append((f"N{n}|{cycle_type(plist)}|{kind}|{','.join(sorted(o['kind'][:4] for o in case['cfg']['observables']))}|order", nonid and spread >= 0.05))
            if nonid and kind in ("local", "dmm", "pi", "slm"):
                probes["non_identity_order_with_per_atom_drive"] = 1
            if out.error is not None:
                V.append({"clause": "C03.run-raised", "site": f"{site}|{out.error_site}", "msg": f"run under internal order {plist} raised {out.error!r} although the identity order runs :: {desc}"})
                continue
            d = R.compare(ref.results, out.results, tol=TOL, skip_counters=True, tol_by_tag=tolt)
            maxdisc = max(maxdisc, _maxdiff(ref.results, out.results))
            if d:
                V.append({"clause": "C03.order-changes-results", "site": kind, "msg": f"internal order {plist} changes the results: {d[:3]} (identity-order occupations {R.summarize(ref.results)['tags'].get('occupation')}, this order {R.summarize(out.results)['tags'].get('occupation')}) :: {desc}"})
            if kind == "pi":
                V.extend(_pi_check(out.results, case["extra"]["pi_target"], n, f"order", desc))
            bv, nb = _bits_vs_occupation(out.results, n, "order", desc, noiseless)
            V.extend(bv)
            ncmp_bits += nb
            if do_resume and out.worlds:
                base = M.advertised_name(out.worlds, out.leftover, C.PREFIX)
                cache: dict = {}
                cands = [w for w in out.worlds if base and M.loadable(w["files"].get(base), cache)[0] and C.stage_of(w, out.progress_calls) == "run"]
                if cands:
                    w = cands[tape.int(0, len(cands) - 1, "resume_from")]
                    rcase = {"cfg": case["cfg"], "perm_kind": "fixed", "perm": plist}
                    rs = C.resume_run(world, rcase, w["files"], base, out.rng_by_sha.get(M.sha(w["files"][base])), tape.bool(0.5, "as_path"), (lambda k: 0.003))
                    evals += 1
                    if nonid:
                        probes["resume_under_non_identity_order"] = 1
                    cases.append((f"N{n}|{cycle_type(plist)}|{kind}|resume", nonid and spread >= 0.05))
                    if rs.error is not None:
                        V.append({"clause": "C03.resume-raised", "site": rs.error_site or "?", "msg": f"resume under internal order {plist} raised {rs.error!r} :: {desc}"})
                    else:
                        d = R.compare(ref.results, rs.results, tol=TOL, skip_counters=True, tol_by_tag=tolt)
                        if d:
                            V.append({"clause": "C03.order-changes-results-after-resume", "site": kind, "msg": f"resumed run under internal order {plist} differs from the identity-order run: {d[:3]} :: {desc}"})
        # ---- relabelling / re-insertion of the register (identity internal order and a random one)
        if kind != "dark":  # pulser draws bad atoms per register position: relabelling changes which label is bad
            ins = tape.permutation(n, "reinsert")
            rename = tape.bool(0.5, "rename")
            newlab = {l: (f"atom_{chr(97 + i)}" if rename else l) for i, l in enumerate(labels)}
            scn2 = dict(case["scn"])
            scn2["atoms"] = [[newlab[case["scn"]["atoms"][i][0]], case["scn"]["atoms"][i][1], case["scn"]["atoms"][i][2]] for i in ins]
            scn2["local_init"] = newlab.get(case["scn"]["local_init"]) if case["scn"]["local_init"] else None
            scn2["dmm"] = {newlab[k]: v for k, v in case["scn"]["dmm"].items()} if case["scn"]["dmm"] else None
            scn2["slm"] = [newlab[k] for k in case["scn"]["slm"]] if case["scn"]["slm"] else None
            scn2["ops"] = [({**o, "q": newlab[o["q"]]} if o["op"] == "target" else o) for o in case["scn"]["ops"]]
            over: dict[str, Any] = {}
            if case["extra"].get("initial_bits"):
                b0 = case["extra"]["initial_bits"]
                over["bits_override"] = "".join(b0[i] for i in ins)
            if case["cfg"].get("interaction_matrix") is not None:
                # a user-supplied matrix is indexed by register position: it moves with the atoms
                m0 = case["cfg"]["interaction_matrix"]
                over["interaction_matrix"] = [[m0[ins[a]][ins[b]] for b in range(n)] for a in range(n)]
            perm2 = tape.permutation(n, "perm_relabel")
            if case.get("strong"):
                # site s holds register atom perm2[s]: undo the re-insertion, so that the chain is in its original order
                inv = [0] * n
                for pos, src in enumerate(ins):
                    inv[src] = pos
                perm2 = inv if tape.bool(0.5, "relabel_mirror") else inv[::-1]
            out2 = run_under(world, case, seeds, perm2, scn=scn2, cfg_over=over)
            evals += 1
            probes["reinserted_register"] = 1
            if rename:
                probes["relabelled_register"] = 1
            cases.append((f"N{n}|{cycle_type(ins)}|{kind}|relabel{int(rename)}", ins != ident and spread >= 0.05))
            if out2.error is not None:
                V.append({"clause": "C03.run-raised", "site": f"relabel|{out2.error_site}", "msg": f"run of the re-inserted register {scn2['atoms']} raised {out2.error!r} :: {desc}"})
            else:
                exp_order = tuple(a[0] for a in scn2["atoms"])
                if tuple(out2.results["atom_order"]) != exp_order:
                    V.append({"clause": "C03.atom-order", "site": "relabel", "msg": f"atom_order {out2.results['atom_order']} != register order {exp_order} :: {desc}"})
                else:
                    d2 = compare_by_label(ref.results, out2.results, newlab, tolt["occupation"], tolt)
                    if d2:
                        V.append({"clause": "C03.relabelling-changes-results", "site": kind, "msg": f"re-inserting the register as {scn2['atoms']} (internal order {perm2}) changes per-label results: {d2[:3]} :: {desc}"})
        # ---- safeguard: an observable that cannot be un-permuted must switch reordering off
        if tape.bool(0.4, "safeguard") and kind != "dark":
            extra_obs = tape.choice(["state", "entanglement_entropy", "fidelity", "expectation"], "np_obs")
            c2 = dict(case["cfg"])
            # a reference state / operator that singles out one atom, so that mixing up atom orders shows
            j = case["extra"].get("pi_target", tape.int(0, n - 1, "np_site"))
            xo: dict[str, Any] = {"kind": extra_obs, "times": [1.0], "site": min(j, max(0, n - 2)) if extra_obs == "entanglement_entropy" else j}
            if extra_obs == "fidelity":
                xo["bits"] = "".join("r" if i == j else "g" for i in range(n))
            c2["observables"] = list(case["cfg"]["observables"]) + [xo]
            case2 = {**case, "cfg": c2}
            # the same scenario with the extra observable under the identity order and under another order: whatever the
            # config decides about reordering, every reported value - the extra one included - must be the same
            perm3 = ident[::-1] if tape.bool(0.5, "sg_rev") else tape.permutation(n, "sg_perm")
            if case.get("strong"):
                perm3 = ident[::-1]
            nperm_before = len(world.log.of_kind("perm"))
            out3i = run_under(world, case2, seeds, ident)
            out3 = run_under(world, case2, seeds, perm3)
            evals += 2
            probes["non_permutable_observable_safeguard"] = 1
            cases.append((f"N{n}|{kind}|safeguard|{extra_obs}|{cycle_type(list(perm3))}", list(perm3) != ident))
            if out3.error is not None or out3i.error is not None:
                e = out3.error if out3.error is not None else out3i.error
                V.append({"clause": "C03.run-raised", "site": f"safeguard|{(out3.error_site if out3.error is not None else out3i.error_site)}", "msg": f"run with {extra_obs} raised {e!r} :: {desc}"})
            else:
                nperm = len(world.log.of_kind("perm")) - nperm_before
                tol3 = dict(tolt)
                tol3.update({"state": tolt["occupation"], "fidelity": tolt["occupation"], "entanglement_entropy": tolt["occupation"], "expectation": tolt["occupation"] * energy_scale(case)})
                d3 = R.compare(out3i.results, out3.results, tol=TOL, skip_counters=True, tol_by_tag=tol3)
                if d3:
                    V.append({"clause": "C03.safeguard", "site": extra_obs, "msg": f"with the non-permutable observable {extra_obs} (singling out atom #{j}) requested, internal order {list(perm3)} gives different results than the identity order: {d3[:3]}; the optimiser was consulted {nperm} times :: {desc}"})
                d4 = R.compare(ref.results, {**out3i.results, "tags": {k: v for k, v in out3i.results["tags"].items() if k in ref.results["tags"]}}, tol=TOL, skip_counters=True, tol_by_tag=tolt)
                if d4:
                    V.append({"clause": "C03.safeguard", "site": f"{extra_obs}|others", "msg": f"adding the observable {extra_obs} changes the other results: {d4[:3]} :: {desc}"})
        return {
            "violations": _dedupe(V),
            "cases": cases,
            "evals": evals,
            "probes": probes,
            "digest": world.log.digest(),
            "scenario": desc,
            "sample": {"scenario": desc, "identity_order_results": R.summarize(ref.results), "orders_tried": [p if isinstance(p, str) else list(p) for p in perms]},
            "sim_ns": case["T"] * world.n_inc,
            "sim_wall_s": world.clock.total_advanced,
            "faults": {"crash": probes.get("resume_under_non_identity_order", 0)},
            "maxdisc": maxdisc,
            "tol_used": tolt["occupation"],
            "split_est": splitting_error_estimate(case),
            "ncmp_bits": ncmp_bits,
        }
    finally:
        world.close()


def _dedupe(V: list[dict]) -> list[dict]:
    seen, out = set(), []
    for v in V:
        k = (v["clause"], v["site"])
        if k not in seen:
            seen.add(k)
            out.append(v)
    return out


BITS_LOG_ALPHA = math.log(1e-9 / 1e6)  # per comparison; <= 1e6 (atom, time, run) comparisons per invocation


def _bits_vs_occupation(canon: dict, n: int, where: str, desc: dict, noiseless: bool) -> tuple[list[dict], int]:
    """Bit-string positions against the occupations of the same run: in a noiseless run without readout errors the
    number of shots with a '1' at position i is Binomial(shots, <n_i>) - an exact test at a fixed family-wise level;
    gross mix-ups of positions (wrong permutation of the strings only) show for any drive that distinguishes atoms."""
    from .c15 import log_two_sided

    V: list[dict] = []
    ncmp = 0
    if not noiseless:
        return V, 0
    for suffix in ("", "_x"):
        bs, occ = canon["tags"].get("bitstrings" + suffix), canon["tags"].get("occupation")
        if not bs or not occ:
            continue
        occ_by_t = {t: np.asarray(v, dtype=float) for t, v in occ}
        for t, v in bs:
            cnt = v.get("__counter__") if isinstance(v, dict) else None
            o = occ_by_t.get(t)
            if not cnt or o is None or o.shape != (n,):
                continue
            shots = sum(cnt.values())
            for i in range(n):
                k = sum(c for s_, c in cnt.items() if len(s_) == n and s_[i] == "1")
                ncmp += 1
                lp = log_two_sided(k, shots, min(1.0, max(0.0, float(o[i]))))
                if lp < BITS_LOG_ALPHA:
                    V.append({"clause": "C03.bitstrings-vs-occupation", "site": where + ("|tag_suffix" if suffix else ""), "msg": f"at t={t}: {k} of {shots} bit strings have a '1' at position {i}, but the occupation of atom #{i} in the same run is {float(o[i]):.4f} (exact binomial log p = {lp:.1f}); occupations {np.round(o, 4).tolist()}, counts {dict(list(cnt.items())[:6])} :: {desc}"})
                    return V, ncmp
    return V, ncmp


def _maxdiff(a: dict, b: dict) -> float:
    m = 0.0
    for tag in ("occupation", "correlation_matrix"):
        if tag in a["tags"] and tag in b["tags"]:
            for (ta, va), (tb, vb) in zip(a["tags"][tag], b["tags"][tag]):
                x, y = np.asarray(va, dtype=float), np.asarray(vb, dtype=float)
                if x.shape == y.shape and x.size:
                    m = max(m, float(np.max(np.abs(x - y))))
    return m


def _pi_check(canon: dict, tgt: int, n: int, where: str, desc: dict) -> list[dict]:
    V = _pi_check_tags(canon, tgt, n, where, desc, "occupation", "bitstrings")
    if "occupation_x" in canon["tags"] or "bitstrings_x" in canon["tags"]:
        for v in _pi_check_tags(canon, tgt, n, where, desc, "occupation_x", "bitstrings_x"):
            v["site"] += "|tag_suffix"
            V.append(v)
    return V


def _pi_check_tags(canon: dict, tgt: int, n: int, where: str, desc: dict, occ_tag: str, bs_tag: str) -> list[dict]:
    V = []
    occ = canon["tags"].get(occ_tag)
    if occ:
        v = np.asarray(occ[-1][1], dtype=float)
        exp = np.zeros(n)
        exp[tgt] = 1.0
        if float(np.max(np.abs(v - exp))) > 1e-3:
            V.append({"clause": "C03.pi-pulse-occupation", "site": where, "msg": f"pi pulse on atom #{tgt}: final occupations {v.tolist()} :: {desc}"})
    bs = canon["tags"].get(bs_tag)
    if bs:
        cnt = bs[-1][1].get("__counter__", {})
        want = "".join("1" if i == tgt else "0" for i in range(n))
        tot = sum(cnt.values())
        if cnt.get(want, 0) < 0.9 * tot:
            V.append({"clause": "C03.pi-pulse-bitstring", "site": where, "msg": f"pi pulse on atom #{tgt}: expected (almost) only '{want}', got {dict(list(cnt.items())[:5])} :: {desc}"})
    return V


def finish(results: list[dict], tier: str, opts: dict) -> tuple[list[dict], dict]:
    m = max([r.get("maxdisc", 0.0) for r in results] or [0.0])
    nb = sum(int(r.get("ncmp_bits", 0)) for r in results)
    if nb > 1e6:
        from ..seams import HarnessError

        raise HarnessError("more bit-string comparisons than the per-comparison level was derived for")
    return [], {"calibration_max_discrepancy": m, "tolerance": TOL, "largest_tolerance_used": max([r.get("tol_used", TOL) for r in results] or [TOL]), "largest_splitting_error_estimate": max([r.get("split_est", 0.0) for r in results] or [0.0]), "bitstring_position_comparisons": nb}
