"""C27 - a loadable autosave always survives a crash during autosaving.

Fault enumeration inside each scenario: the forward run autosaves (simulated clock), every
file-system operation of every autosave is an interception point, and the directory
contents at each point (plus torn prefixes of every write) are the crash worlds.  Oracle
per world, once a first autosave has completed: a regular file exists under the advertised
name, pickle.load succeeds on it (L1, every world), and MPSBackend.resume on it returns the
reference results (L2, distinct disk states; all of them in the thorough tier).  Error
returns (ENOSPC/EIO) are injected into resumed incarnations and judged by the same
disk-state oracle."""
from __future__ import annotations

import errno
from typing import Any

from .. import mpsrun as M
from .. import results as R
from ..seams import World
from ..tape import Tape
from . import _crash as C

ID = "C27"
LEVEL = "fault_enumeration"
RULE = (
    "Scenarios (2-4 atoms, 2-8 steps, TDVP/DMRG/noisy emu-mps) are drawn from the seeded tape; within a scenario "
    "EVERY file-system interception point (open/write incl. torn prefixes/close/rename/getsize/remove) of EVERY "
    "autosave is a crash world. A case is non-trivial iff the crash lands inside an autosave that follows a "
    "completed one; cases are distinct by (save-ordinal bucket, operation:phase:file-role, torn class, "
    "crash-vs-error-return, leftover files present, incarnation depth). On top of the crash worlds, 3 (thorough: 6) resumed "
    "incarnations per scenario are killed *with unwinding* at a tape-chosen file-system point: an error return (ENOSPC / EIO / "
    "EACCES instead of the operation) or a KeyboardInterrupt before or after it; the directory the unwound process leaves is "
    "judged the same way and resumed."
)
COMPONENTS = {
    "real": ["pulser sampling", "PulserData", "MPSBackend.run/_run/resume", "MPSBackendImpl.save_simulation", "pickle", "TDVP/DMRG/quantum-jump numerics", "kernel file system (tmpfs)"],
    "stubbed": ["wall clock (SimClock)", "uuid1/uuid4 (counter)", "RNG seeding", "minimize_bandwidth (scheduler-chosen permutation)", "process death (directory snapshot + fresh incarnation)"],
}
PROBES = ["crash_between_renames", "torn_new", "crash_before_bak_removed", "error_return_injected", "interrupt_injected", "interrupt_during_final_cleanup", "second_crash_in_resumed_incarnation", "stale_leftover_present_at_save", "noisy_save_with_active_root_search", "final_cleanup_points"]
ASSUMPTIONS = [
    "process crash model: directory contents at the instant of death survive; no power-loss (un-fsynced data) model, the property does not ask for it",
    "POSIX rename semantics (the kernel's)",
    "in-process restart; module globals survive (a sample is re-checked in a fresh interpreter by the selftest)",
]

PROFILE = {"n_atoms": (2, 4), "n_pulses": (1, 2), "dur": (16, 80), "max_steps": 8, "p_modulation": 0.1, "solver_w": [0.5, 0.3, 0.2], "p_xy": 0.08}


def plan(tier: str) -> dict:
    if tier == "quick":
        return {"runs": 120, "wall_s": 170, "task_timeout": 300}
    return {"runs": 2400, "wall_s": 1500, "task_timeout": 900}


def _bucket(k: int) -> str:
    return str(k) if k <= 3 else ("4-8" if k <= 8 else "9+")


def run_one(tape: Tape, tier: str, opts: dict) -> dict:
    H = C.History()
    case = C.gen_case(tape, tier, PROFILE)
    cfg = case["cfg"]
    seeds = (tape.seed32("seed_py"), tape.seed32("seed_np"), tape.seed32("seed_torch"))
    world = World("c27")
    world.uuid_seed = tape.int(1, 1000, "uuid_seed")
    # user-space write buffer of the autosave file (CPython: st_blksize of the file system, 4 KiB ... 1 MiB): whatever is
    # still in it when the process dies never reaches the disk
    world.buffer_size = tape.choice([8192, 8192, 512, 4096, 65536, 1 << 20], "write_buffer")
    sample: dict[str, Any] = {}
    out: dict[str, Any] = {"scenario": {"register": case["scn"]["atoms"], "ops": case["scn"]["ops"], "cfg": {k: v for k, v in cfg.items() if k != "observables"}, "solver": case["solver"], "perm": case["perm_kind"]}}
    try:
        ref = C.reference_run(world, case, seeds)
        if ref.error is not None:
            out["skipped"] = f"reference-raised:{ref.error_site}"
            return _finish(out, H, world, case, sample)
        case["budget"] = 50 * ref.progress_calls + 200
        mode = tape.weighted(["every", "period", "bernoulli"], [0.5, 0.3, 0.2], "c27_clock")
        pname, pol = C.clock_policy(tape, cfg["autosave_dt"], mode)
        torn = C.torn_lengths(tape)
        fw = C.forward_run(world, case, seeds, pol, torn)
        H.notes["clock"] = pname
        if fw.error is not None:
            out["skipped"] = f"forward-raised:{fw.error_site}"
            return _finish(out, H, world, case, sample)
        base = M.advertised_name(fw.worlds, fw.leftover, C.PREFIX)
        if base is None:
            out["skipped"] = "no-autosave-happened"
            return _finish(out, H, world, case, sample)
        cache: dict = {}
        _judge_worlds(H, tape, tier, world, case, ref, fw, base, cache, depth=0, sample=sample)
    finally:
        world.close()
    return _finish(out, H, world, case, sample)


def _finish(out: dict, H: C.History, world: World, case: dict, sample: dict) -> dict:
    out.update(
        violations=H.violations,
        cases=H.cases,
        evals=max(1, H.evals),
        faults=H.faults,
        probes=H.probes,
        sim_wall_s=world.clock.total_advanced,
        sim_ns=float(case["T"]) * max(1, world.n_inc),
        digest=world.log.digest(),
        events_tail=world.log.tail(30) if H.violations else None,
        schedule=H.notes,
    )
    if sample:
        out["sample"] = sample
    return out


def _l1(H: C.History, worlds: list[dict], total_pcalls: int, base: str, cache: dict, armed: bool, depth: int, kind: str = "crash") -> list[dict]:
    """Disk-state oracle over every crash world, in order.  Returns the in-scope worlds."""
    in_scope = []
    seen_sites: set = set()
    for w in worlds:
        stage = C.stage_of(w, total_pcalls)
        data = w["files"].get(base) if base in w["files"] else None
        ok, why = M.loadable(data, cache)
        H.evals += 1
        site = C.site_of(w, base)
        if stage == "final":
            H.probe("final_cleanup_points")
        if armed and stage != "final":
            leftovers = sorted(M.role(n, base) for n in w["files"] if n != base)
            key = f"save{_bucket(w['save'])}|{site}|{kind}|left={','.join(leftovers)}|d{depth}"
            H.cases.append((key, True))
            in_scope.append(w)
            if w["op"] == "rename" and w["phase"] == "after" and M.role(w["name"], base) == "base":
                H.probe("crash_between_renames")
            if w.get("torn") is not None:
                H.probe("torn_new")
            if w["op"] == "remove" and w["phase"] == "before":
                H.probe("crash_before_bak_removed")
            if w["op"] == "open_w" and w["phase"] == "before" and leftovers:
                H.probe("stale_leftover_present_at_save")
            if not ok:
                clause = "C27.missing" if data is None else "C27.unloadable"
                if (clause, site) not in seen_sites:
                    seen_sites.add((clause, site))
                    H.viol(
                        clause,
                        site,
                        f"after a completed autosave, a crash at fs point {w['n']} ({site}, autosave #{w['save']}, progress call {w['pcall']}) leaves "
                        + ("no regular file" if data is None else f"an unloadable file ({why})")
                        + f" under the advertised name {base}; directory = { {n: (len(b) if b is not None else None) for n, b in w['files'].items()} }",
                        world=C.describe_world(w, base),
                    )
        if ok:
            armed = True
    return in_scope


def _judge_worlds(H: C.History, tape: Tape, tier: str, world: World, case: dict, ref: M.Outcome, fw: M.Outcome, base: str, cache: dict, depth: int, sample: dict) -> None:
    total = fw.progress_calls
    in_scope = _l1(H, fw.worlds, total, base, cache, armed=(depth > 0), depth=depth)
    if any(w["pcall"] in getattr(fw, "finder_calls", ()) for w in in_scope):
        H.probe("noisy_save_with_active_root_search")
    if depth == 0 and not sample and in_scope:
        w = in_scope[len(in_scope) // 2]
        sample.update({"scenario_atoms": case["scn"]["atoms"], "solver": case["solver"], "crash_world": C.describe_world(w, base), "n_crash_worlds": len(fw.worlds), "autosaves": max(x["save"] for x in fw.worlds)})
    # L2: resume from distinct disk states with a loadable base
    cand: dict = {}
    for w in in_scope:
        if M.loadable(w["files"].get(base), cache)[0]:
            cand.setdefault(M.world_key(w), w)
    states = list(cand.values())
    limit = (6 if depth == 0 else 2) if tier == "quick" else (40 if depth == 0 else 6)
    if len(states) > limit:
        picks = sorted(set(tape.int(0, len(states) - 1, f"l2_pick{depth}_{i}") for i in range(limit)))
        states = [states[i] for i in picks]
    resumed_by_base: dict[str, bool] = {}
    rec_choice = tape.int(0, max(0, len(states) - 1), f"rec_choice{depth}") if states else -1
    for i, w in enumerate(states):
        rng = fw.rng_by_sha.get(M.sha(w["files"][base]))
        as_path = tape.bool(0.5, f"as_path{depth}_{i}")
        pname, pol = C.clock_policy(tape, case["cfg"]["autosave_dt"])
        record = depth < 2 and i == rec_choice
        rs = C.resume_run(world, case, w["files"], base, rng, as_path, pol, record=record, torn=C.torn_lengths(tape) if record else None)
        H.evals += 1
        site = C.site_of(w, base)
        if rs.error is not None:
            H.viol("C27.resume-raises", f"{site}|{rs.error_site}", f"resume from the crash world at fs point {w['n']} ({site}) raised {rs.error!r}", world=C.describe_world(w, base))
            continue
        d = C.compare_resumed(case, ref, rs, rng)
        if d:
            H.viol("C27.resume-differs", _dclass(d), f"resume from the crash world at fs point {w['n']} ({site}) differs from the uninterrupted run: {d[:3]}", world=C.describe_world(w, base))
            continue
        if record and rs.worlds:
            H.probe("second_crash_in_resumed_incarnation")
            _judge_worlds(H, tape, tier, world, case, ref, _as_forward(rs, fw), base, cache, depth + 1, sample)
    # error returns, injected into a resumed incarnation so that they land inside an autosave
    nerr = (3 if tier == "quick" else 6) if depth == 0 else 0
    loadables = [w for w in in_scope if M.loadable(w["files"].get(base), cache)[0] and w["pcall"] < total]
    for j in range(nerr):
        if not loadables:
            break
        w = loadables[tape.int(0, len(loadables) - 1, f"err_world{j}")]
        k = tape.int(1, 14, f"err_point{j}")
        code = tape.choice([errno.ENOSPC, errno.EIO, errno.EACCES, "interrupt"], f"err_code{j}")
        rng = fw.rng_by_sha.get(M.sha(w["files"][base]))
        if code == "interrupt":
            # KeyboardInterrupt at that file-system point (before or after the operation): the process unwinds, then dies
            rs = C.resume_run(world, case, w["files"], base, rng, True, (lambda n: case["cfg"]["autosave_dt"] + 1.0), faults={k: ("interrupt",)})
            fired = getattr(rs, "fired", {}).get("interrupt", 0)
            H.evals += 1
            if not fired:
                continue
            H.fault("interrupt")
            H.probe("interrupt_injected")
            _after_kill(H, tape, world, case, ref, rs, base, cache, rng, "KeyboardInterrupt", k, "interrupt:", M.sha(w["files"][base]))
            continue
        rs = C.resume_run(world, case, w["files"], base, rng, True, (lambda n: case["cfg"]["autosave_dt"] + 1.0), faults={k: ("error", code)})
        fired = getattr(rs, "fired", {}).get("error", 0)
        H.evals += 1
        if not fired:
            continue
        H.fault(f"error:{errno.errorcode[code]}")
        H.probe("error_return_injected")
        files = rs.final_files  # type: ignore[attr-defined]
        data = files.get(base)
        ok, why = M.loadable(data, cache)
        H.cases.append((f"error:{errno.errorcode[code]}|point{k}|ok={ok}", True))
        at = rs.fired_at[0] if getattr(rs, "fired_at", None) else None  # type: ignore[attr-defined]
        site = "error-return:" + (C.site_of({**at, "torn": None}, base) if at else "?")
        if rs.error is None:
            # the SUT survived the error; its results must still be right
            d = C.compare_resumed(case, ref, rs, rng)
            if d:
                H.viol("C27.resume-differs", site, f"run continued after an injected {errno.errorcode[code]} at fs point {k} but its results differ: {d[:3]}")
            continue
        if not ok:
            H.viol("C27.missing" if data is None else "C27.unloadable", site, f"an injected {errno.errorcode[code]} at fs point {k} of a resumed incarnation killed the run ({rs.error_site}) and left " + ("no file" if data is None else f"an unloadable file ({why})") + f" under {base}: { {n: (len(b) if b is not None else None) for n, b in files.items()} }")
            continue
        rng2 = rs.rng_by_sha.get(M.sha(data)) or (rng if M.sha(data) == M.sha(w["files"][base]) else fw.rng_by_sha.get(M.sha(data)))
        rs2 = C.resume_run(world, case, files, base, rng2, False, (lambda n: 0.003))
        H.evals += 1
        if rs2.error is not None:
            H.viol("C27.resume-raises", f"{site}|{rs2.error_site}", f"after an injected {errno.errorcode[code]} killed the run, resume raised {rs2.error!r}")
        else:
            d = C.compare_resumed(case, ref, rs2, rng2)
            if d:
                H.viol("C27.resume-differs", site, f"after an injected {errno.errorcode[code]} killed the run, the resumed results differ: {d[:3]}")


def _after_kill(H: C.History, tape: Tape, world: World, case: dict, ref: M.Outcome, rs: M.Outcome, base: str, cache: dict, rng: Any, what: str, k: int, prefix: str, start_sha: str) -> None:
    """The run was killed by an exception the scheduler injected and has unwound: the directory it leaves behind must
    hold a loadable snapshot under the advertised name, and resuming from it must give the reference results."""
    files = rs.final_files  # type: ignore[attr-defined]
    data = files.get(base)
    ok, why = M.loadable(data, cache)
    at = rs.fired_at[0] if getattr(rs, "fired_at", None) else None  # type: ignore[attr-defined]
    site = prefix + (C.site_of({**at, "torn": None}, base) if at else "?")
    H.cases.append((f"{prefix}{(at or {}).get('op')}:{(at or {}).get('phase')}|ok={ok}", True))
    if rs.error is None:
        return  # the SUT swallowed it and finished: nothing to resume
    if not ok and at is not None and not at.get("inside", True) and at.get("pcall", 0) > 0:
        # the interrupt arrived outside any unit of work after the last one: the simulation had finished and was
        # removing its autosave file - not "during an autosave", and there is nothing left to resume
        H.probe("interrupt_during_final_cleanup")
        return
    if not ok:
        H.viol("C27.missing" if data is None else "C27.unloadable", site, f"an injected {what} at fs point {k} of a resumed incarnation killed the run and left " + ("no file" if data is None else f"an unloadable file ({why})") + f" under {base}: { {n: (len(b) if b is not None else None) for n, b in files.items()} }")
        return
    rng2 = rs.rng_by_sha.get(M.sha(data)) or (rng if M.sha(data) == start_sha else None)
    rs2 = C.resume_run(world, case, files, base, rng2, False, (lambda n: 0.003))
    H.evals += 1
    if rs2.error is not None:
        H.viol("C27.resume-raises", f"{site}|{rs2.error_site}", f"after an injected {what} killed the run, resume raised {rs2.error!r}")
    else:
        d = C.compare_resumed(case, ref, rs2, rng2)
        if d:
            H.viol("C27.resume-differs", site, f"after an injected {what} killed the run, the resumed results differ: {d[:3]}")


def _dclass(d: list[str]) -> str:
    """Class of a results difference: the tag (or 'atom_order'), without values."""
    import re

    return re.split(r"[ :@]", d[0], maxsplit=1)[0]


def _as_forward(rs: M.Outcome, fw: M.Outcome) -> M.Outcome:
    # RNG snapshots taken in the resumed incarnation extend those of the forward run
    merged = dict(fw.rng_by_sha)
    merged.update(rs.rng_by_sha)
    rs.rng_by_sha = merged
    return rs
