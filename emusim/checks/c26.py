"""C26 - resuming from an autosave gives the same results as an uninterrupted run.

Per scenario: a reference run (autosave off), a forward run under a simulated clock that
turns a scheduler-chosen subset of progress steps (all of them in many runs) into
autosave points, and, for every distinct autosave file the forward run ever made visible,
a fresh incarnation that resumes from the disk state the crash left behind.  Resumed
incarnations autosave and crash again (depth <= 3).  Oracles: resume returns; its results
equal the reference (tags, times, atom order exactly; values to 1e-10; noisy runs under
RNG coupling); autosaving alone does not perturb the run; the autosave file is gone when
a run finishes."""
from __future__ import annotations

from typing import Any

from .. import mpsrun as M
from .. import results as R
from ..seams import World
from ..tape import Tape
from . import _crash as C

ID = "C26"
LEVEL = "fault_enumeration"
RULE = (
    "Scenarios (2-5 atoms, 2-12 steps; TDVP, DMRG and quantum-jump solvers; reordering on/off with scheduler-chosen internal "
    "order; SLM, DMM, local drives, SPAM dark atoms) come from the seeded tape. Within a scenario the crash points are the "
    "distinct disk states of the forward run (one per autosave that became visible, i.e. per progress step that autosaved - "
    "with the 'every' clock policy that is every sweep position / jump-search iteration), each resumed in a fresh incarnation; "
    "resumed incarnations are crashed again up to depth 3. Non-trivial iff the resumed incarnation executed >= 1 further "
    "progress() call from a snapshot taken mid-run; distinct by (solver, N, reordering class, noise kind, snapshot position = "
    "(time-step bucket, progress-call bucket), depth, clock policy of the resumed incarnation)."
)
COMPONENTS = {
    "real": ["pulser sampling", "PulserData", "MPSBackend.run/_run/resume/_run_from_sequence_data", "MPSBackendImpl/NoisyMPSBackendImpl/DMRGBackendImpl incl. __getstate__/__setstate__/save_simulation", "pickle", "all tensor numerics", "kernel file system (tmpfs)"],
    "stubbed": ["wall clock (SimClock)", "uuid1/uuid4 (counter)", "RNG seeding and, for noisy runs, RNG-state restore at resume (coupling)", "minimize_bandwidth (scheduler-chosen permutation)", "process death (directory snapshot + fresh incarnation)"],
}
PROBES = ["multi_trajectory_resume", "resume_with_active_root_search", "resume_mid_timestep", "resume_noisy_with_jump_after", "resume_dmrg", "resume_with_reordering", "resume_with_dark_atoms", "second_crash", "third_crash", "resume_from_final_cleanup_state", "clock_jump_in_resumed", "resume_str_arg", "resume_path_arg", "fresh_interpreter_resume"]
ASSUMPTIONS = [
    "noisy runs: 'same distribution' is checked by coupling - the resumed incarnation gets the RNG state the snapshot was taken with, so a complete snapshot must reproduce the trajectory exactly",
    "in-process restarts (module globals survive), except for a sample (3 % of the scenarios in the quick tier, 12 % in the thorough tier) whose first crash world is additionally resumed in a brand-new interpreter under another PYTHONHASHSEED",
    "single trajectory per run (an autosave file belongs to one trajectory)",
]

PROFILE = {"n_atoms": (2, 5), "n_pulses": (1, 3), "dur": (16, 100), "max_steps": 12, "p_modulation": 0.15, "solver_w": [0.45, 0.35, 0.2], "p_spam": 0.2, "p_xy": 0.08}


def plan(tier: str) -> dict:
    if tier == "quick":
        return {"runs": 280, "wall_s": 170, "task_timeout": 400}
    return {"runs": 2400, "wall_s": 1700, "task_timeout": 1200}


def _b(k: int) -> str:
    return str(k) if k <= 2 else ("3-5" if k <= 5 else ("6-12" if k <= 12 else "13+"))


def run_one(tape: Tape, tier: str, opts: dict) -> dict:
    H = C.History()
    case = C.gen_case(tape, tier, PROFILE)
    cfg = case["cfg"]
    seeds = (tape.seed32("seed_py"), tape.seed32("seed_np"), tape.seed32("seed_torch"))
    world = World("c26")
    world.uuid_seed = tape.int(1, 1000, "uuid_seed")
    # user-space write buffer of the autosave file (CPython: st_blksize of the file system, 4 KiB ... 1 MiB): whatever is
    # still in it when the process dies never reaches the disk
    world.buffer_size = tape.choice([8192, 8192, 512, 4096, 65536, 1 << 20], "write_buffer")
    sample: dict[str, Any] = {}
    noise_kind = "none" if not cfg.get("noise") else ("spam" if "state_prep_error" in cfg["noise"] else "lindblad")
    out: dict[str, Any] = {"scenario": {"register": case["scn"]["atoms"], "ops": case["scn"]["ops"], "slm": case["scn"].get("slm"), "dmm": case["scn"].get("dmm"), "cfg": {k: v for k, v in cfg.items()}, "solver": case["solver"], "perm": [case["perm_kind"], case["perm"]]}}
    try:
        if case["solver"] == "tdvp" and not cfg.get("noise") and tape.bool(0.08, "multi_trajectory"):
            return _multi_trajectory(out, H, tape, world, case, seeds, sample)
        ref = C.reference_run(world, case, seeds)
        if ref.error is not None:
            out["skipped"] = f"reference-raised:{ref.error_site}"
            return _finish(out, H, world, case, sample)
        case["budget"] = 50 * ref.progress_calls + 200
        pname, pol = C.clock_policy(tape, cfg["autosave_dt"])
        fw = C.forward_run(world, case, seeds, pol, None)
        H.notes["clock"] = pname
        H.evals += 1
        if fw.error is not None:
            H.viol("C26.autosave-breaks-run", fw.error_site or "?", f"the same run that completes with autosave disabled raised {fw.error!r} with autosave enabled (clock policy {pname})")
            return _finish(out, H, world, case, sample)
        d = R.compare(ref.results, fw.results)
        if d:
            H.viol("C26.autosave-perturbs-run", C27_dclass(d), f"autosaving (no crash) changed the results: {d[:3]}")
        base = M.advertised_name(fw.worlds, fw.leftover, C.PREFIX)
        if base is None:
            H.cases.append((f"no-autosave|{case['solver']}", False))
            return _finish(out, H, world, case, sample)
        if base in fw.leftover:
            H.viol("C26.file-not-removed", "forward", f"the autosave file {base} still exists after the run finished: {fw.leftover}")
        ctxkey = f"{case['solver']}|N{len(case['scn']['atoms'])}|perm={case['perm_kind'] if cfg['optimize'] else 'off'}|noise={noise_kind}"
        _explore(H, tape, tier, world, case, ref, fw, base, depth=1, ctxkey=ctxkey, sample=sample, noise_kind=noise_kind)
    finally:
        world.close()
    return _finish(out, H, world, case, sample)


def _multi_trajectory(out: dict, H: C.History, tape: Tape, world: World, case: dict, seeds: tuple, sample: dict) -> dict:
    """A run with n_trajectories > 1 (shot-to-shot amplitude noise): every trajectory autosaves into its own file
    and deletes it when it finishes.  A crash during trajectory k leaves the file of trajectory k; resuming from it
    must still give the results of the whole simulation."""
    cfg = dict(case["cfg"])
    cfg["noise"] = {"amp_sigma": round(tape.float(0.05, 0.3, "amp_sigma"), 3)}
    cfg["n_trajectories"] = tape.int(2, 3, "n_trajectories")
    mcase = {**case, "cfg": cfg}
    out["scenario"]["cfg"] = cfg
    ref = C.reference_run(world, mcase, seeds)
    if ref.error is not None:
        out["skipped"] = f"reference-raised:{ref.error_site}"
        return _finish(out, H, world, case, sample)
    fw = C.forward_run(world, mcase, seeds, (lambda n: cfg["autosave_dt"] + 1.0), None)
    H.evals += 1
    if fw.error is not None:
        H.viol("C26.autosave-breaks-run", fw.error_site or "?", f"multi-trajectory run raised {fw.error!r} with autosave enabled")
        return _finish(out, H, world, case, sample)
    names: list[str] = []
    for w in fw.worlds:
        for n_ in w["files"]:
            if n_.startswith(C.PREFIX) and n_.endswith(".dat") and n_ not in names:
                names.append(n_)
    if len(names) < 2:
        H.cases.append(("multi-trajectory|too-few-autosaves", False))
        return _finish(out, H, world, case, sample)
    base = names[-1]  # the autosave file of the last trajectory
    cache: dict = {}
    cands = [w for w in fw.worlds if M.loadable(w["files"].get(base), cache)[0] and C.stage_of(w, fw.progress_calls) == "run"]
    if not cands:
        return _finish(out, H, world, case, sample)
    w = cands[tape.int(0, len(cands) - 1, "pick_mt")]
    rs = C.resume_run(world, mcase, {base: w["files"][base]}, base, fw.rng_by_sha.get(M.sha(w["files"][base])), True, (lambda n: 0.003))
    H.evals += 1
    H.fault("crash")
    H.probe("multi_trajectory_resume")
    H.cases.append((f"multi-trajectory|n={cfg['n_trajectories']}|N{len(case['scn']['atoms'])}", True))
    where = f"trajectory {len(names)} of {cfg['n_trajectories']}, autosave #{w['save']}"
    if rs.error is not None:
        H.viol("C26.resume-raises", f"multi-trajectory|{rs.error_site}", f"resume from {where} raised {rs.error!r}")
    else:
        d = R.compare(ref.results, rs.results)
        if d:
            H.viol("C26.resume-differs", "multi-trajectory", f"resume from {where} returns the results of that trajectory alone, not of the {cfg['n_trajectories']}-trajectory simulation: {d[:3]}")
    return _finish(out, H, world, case, sample)


def C27_dclass(d: list[str]) -> str:
    import re

    return re.split(r"[ :@]", d[0], maxsplit=1)[0]


def _finish(out: dict, H: C.History, world: World, case: dict, sample: dict) -> dict:
    out.update(
        violations=H.violations,
        cases=H.cases,
        evals=max(1, H.evals),
        faults=H.faults,
        probes=H.probes,
        sim_wall_s=world.clock.total_advanced,
        sim_ns=float(case["T"]) * max(1, world.n_inc),
        digest=world.log.digest(),
        events_tail=world.log.tail(30) if H.violations else None,
        schedule=H.notes,
    )
    if sample:
        out["sample"] = sample
    return out


def _explore(H: C.History, tape: Tape, tier: str, world: World, case: dict, ref: M.Outcome, fw: M.Outcome, base: str, depth: int, ctxkey: str, sample: dict, noise_kind: str) -> None:
    total = fw.progress_calls
    cache: dict = {}
    # distinct disk states that hold a loadable file under the advertised name
    states: dict = {}
    for w in fw.worlds:
        data = w["files"].get(base)
        if data is None or not M.loadable(data, cache)[0]:
            continue
        states.setdefault(M.world_key(w), w)
    # one representative per distinct *snapshot* first (the quantifier: every progress step that autosaved),
    # then states that differ only in leftovers (.new/.bak present)
    by_snapshot: dict = {}
    extra: list = []
    for k, w in states.items():
        s = M.sha(w["files"][base])
        if s in by_snapshot:
            extra.append(w)
        else:
            by_snapshot[s] = w
    reps = list(by_snapshot.values())
    limit = {1: 8, 2: 2, 3: 1}[depth] if tier == "quick" else {1: 60, 2: 6, 3: 2}[depth]
    if len(reps) > limit:
        picks = sorted(set(tape.int(0, len(reps) - 1, f"pick{depth}_{i}") for i in range(limit)))
        reps = [reps[i] for i in picks]
    n_extra = min(len(extra), 2 if tier == "quick" else 8) if depth == 1 else 0
    for i in range(n_extra):
        reps.append(extra[tape.int(0, len(extra) - 1, f"extra{i}")])
    rec_choice = tape.int(0, max(0, len(reps) - 1), f"rec{depth}") if reps else -1
    for i, w in enumerate(reps):
        rng = fw.rng_by_sha.get(M.sha(w["files"][base]))
        as_path = tape.bool(0.5, f"as_path{depth}_{i}")
        pname, pol = C.clock_policy(tape, case["cfg"]["autosave_dt"])
        if tape.bool(0.15, f"jump{depth}_{i}"):
            world.clock.jumps = {world.clock.reads + tape.int(1, 30, "jump_at"): tape.choice([7200.0, -3600.0, -30.0, 86400.0], "jump_by")}
            H.probe("clock_jump_in_resumed")
            H.fault("clock_jump")
        record = depth < 3 and i == rec_choice
        stage = C.stage_of(w, total)
        rs = C.resume_run(world, case, w["files"], base, rng, as_path, pol, record=record)
        world.clock.jumps = {}
        H.evals += 1
        H.fault("crash")
        remaining = rs.progress_calls
        nontrivial = remaining >= 1 and stage == "run"
        H.cases.append((f"{ctxkey}|p{_b(w['pcall'])}of{_b(total)}|d{depth}|clk={pname[:6]}|{stage}", nontrivial))
        H.probe("resume_path_arg" if as_path else "resume_str_arg")
        if stage == "final":
            H.probe("resume_from_final_cleanup_state")
        if w["pcall"] in getattr(fw, "finder_calls", ()):
            H.probe("resume_with_active_root_search")
        if nontrivial:
            H.probe("resume_mid_timestep")
            if case["solver"] == "dmrg":
                H.probe("resume_dmrg")
            if case["cfg"]["optimize"] and case["perm_kind"] != "identity":
                H.probe("resume_with_reordering")
            if noise_kind == "spam":
                H.probe("resume_with_dark_atoms")
            if noise_kind == "lindblad":
                H.probe("resume_noisy_with_jump_after")
        if depth == 2:
            H.probe("second_crash")
        if depth == 3:
            H.probe("third_crash")
        site = f"{case['solver']}|d{depth}"
        where = f"autosave #{w['save']} written in progress call {w['pcall']} of {total} ({C.site_of(w, base)}), depth {depth}"
        if not sample and nontrivial:
            sample.update({"register": case["scn"]["atoms"], "solver": case["solver"], "internal_order": case["perm"] if case["cfg"]["optimize"] else "register order", "crash_after": where, "progress_calls_in_resumed_incarnation": remaining, "reference_results": R.summarize(ref.results)})
        if rs.error is not None:
            H.viol("C26.resume-raises", f"{rs.error_site}", f"resume from {where} raised {rs.error!r}", world=C.describe_world(w, base))
            continue
        d = C.compare_resumed(case, ref, rs, rng)
        if d:
            H.viol("C26.resume-differs", C27_dclass(d), f"resume from {where} differs from the uninterrupted run: {d[:3]}", world=C.describe_world(w, base))
            continue
        if base in rs.leftover:
            H.viol("C26.file-not-removed", "resumed", f"the autosave file still exists after the resumed run finished: {rs.leftover}")
        # the same restart once more in a brand-new interpreter (a sample: it costs an import of torch + pulser)
        if depth == 1 and i == 0 and nontrivial and tape.bool(0.03 if tier == "quick" else 0.12, "fresh_interpreter"):
            child = C.fresh_interpreter_resume(case, w["files"], base, rng)
            H.evals += 1
            H.probe("fresh_interpreter_resume")
            H.fault("crash+fresh-interpreter")
            if child["error"] is not None:
                H.viol("C26.resume-raises", "fresh-interpreter", f"resume from {where} in a fresh interpreter raised {child['error']} although the in-process restart returns", world=C.describe_world(w, base))
            else:
                fake = M.Outcome()
                fake.results = child["results"]
                dch = C.compare_resumed(case, ref, fake, rng)
                if dch:
                    H.viol("C26.resume-differs", "fresh-interpreter|" + C27_dclass(dch), f"resume from {where} in a fresh interpreter differs from the uninterrupted run (the in-process restart does not): {dch[:3]}", world=C.describe_world(w, base))
                if base in child["leftover"]:
                    H.viol("C26.file-not-removed", "fresh-interpreter", f"the autosave file still exists after the run resumed in a fresh interpreter finished: {child['leftover']}")
        if record and rs.worlds:
            merged = dict(fw.rng_by_sha)
            merged.update(rs.rng_by_sha)
            rs.rng_by_sha = merged
            _explore(H, tape, tier, world, case, ref, rs, base, depth + 1, ctxkey, sample, noise_kind)
