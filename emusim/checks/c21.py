"""C21 - the simulation time grid covers the sequence and every evaluation time.

What a simulator can decide here is the property read against the *executed* history:
the calendar the solver actually stepped through - in TDVP, DMRG, the quantum-jump solver
(with re-entered steps), emu-sv and emu-sv Lindblad, and across crash/resume - consists of
exactly one completed step per calendar interval, in order, from 0 to the sequence
duration, and equals the reference calendar (every multiple of dt, every requested time,
strictly increasing).  The executed calendar is read black-box from the `statistics`
result both backends record once per completed step; step and trajectory counts come from
trace wrappers.  Weakest fit of the family (DESIGN 7.5): the calendar itself is a pure
function; the stepping over it is not."""
from __future__ import annotations

from typing import Any

from .. import mpsrun as M
from .. import results as R
from .. import scenario as S
from ..models import calendar as CAL
from ..seams import World
from ..tape import Tape
from . import _cal as K
from . import _crash as C

ID = "C21"
LEVEL = "exploration"
RULE = (
    "One case = one run() (or run + crash + resume) of a seeded scenario: durations 1 ns .. 10 us, dt from 0.1 ns to above the "
    "duration, arbitrary evaluation-time sets, modulation on/off, n_trajectories 1..6 with shot-to-shot noise, both backends and "
    "all solvers. Non-trivial iff the calendar has >= 3 intervals and at least one requested time off the dt grid or the duration "
    "is not a multiple of dt; distinct by (backend, dt class, duration class, modulation, #intervals bucket, n_trajectories "
    "bucket, resumed or not)."
)
COMPONENTS = {
    "real": ["pulser sampling", "PulserData._get_target_times/get_sequences", "MPSBackend.run/_run/resume + all impl classes", "SVBackend.run + SVBackendImpl", "all numerics"],
    "stubbed": ["clock", "uuid", "RNG seeding (incl. numpy, which drives pulser's noise-trajectory sampling)", "minimize_bandwidth", "process death for the resumed variant"],
}
PROBES = ["duration_not_multiple_of_dt", "dt_above_duration", "dt_below_1ns", "modulated_run", "multi_trajectory", "trajectory_invariant_noise_reps", "resumed_run", "jump_search_run", "duration_1ns", "long_duration"]
ASSUMPTIONS = [
    "calendar points closer than 1e-10 (relative) to each other count as one point (the backends' own matching tolerance)",
    "the executed calendar is read from the `statistics` result (recorded once per completed step by both backends)",
]


def plan(tier: str) -> dict:
    if tier == "quick":
        return {"runs": 1400, "wall_s": 170, "task_timeout": 300}
    return {"runs": 9000, "wall_s": 1700, "task_timeout": 900}


def gen_traj_noise(tape: Tape, backend: str = "") -> tuple[dict, int, str]:
    kind = tape.choice(["spam", "amplitude", "detuning", "lindblad", "device_none"] + (["spam_prep"] if backend == "sv" else []), "traj_noise")
    n = tape.int(2, 6, "n_trajectories")
    if kind == "device_none":
        # prefer_device_noise_model=True with a device that carries no noise model: a noiseless run, repeated n times
        # (the config's own noise model, here a decoy or nothing, must be ignored)
        return ({"dephasing_rate": 1.0} if tape.bool(0.5, "decoy") else {}), n, kind
    if kind == "spam_prep":
        # emu-sv simulates shots with badly prepared atoms, including shots in which no atom at all was loaded
        # (emu-mps refuses registers with fewer than two well-prepared atoms, C25's subject, so this is emu-sv only)
        return {"state_prep_error": round(tape.float(0.3, 0.6, "prep"), 2)}, tape.int(4, 12, "n_trajectories_prep"), kind
    if kind == "spam":
        # measurement errors only: with state-preparation errors emu-mps refuses registers that end up with fewer
        # than two well-prepared atoms (C25's subject), which has nothing to do with the calendar
        return {"p_false_pos": round(tape.float(0.01, 0.3, "pfp"), 2), "p_false_neg": round(tape.float(0.01, 0.3, "pfn"), 2)}, n, kind
    if kind == "amplitude":
        return {"amp_sigma": round(tape.float(0.01, 0.2, "amp_sigma"), 3)}, n, kind
    if kind == "detuning":
        return {"detuning_sigma": round(tape.float(0.1, 2.0, "det_sigma"), 3)}, n, kind
    return {"dephasing_rate": round(tape.float(0.1, 2.0, "deph"), 3)}, n, kind


def executed_calendar(canon: dict, T: float) -> list[float] | None:
    st = canon["tags"].get("statistics")
    if st is None:
        return None
    return [0.0] + [float(x[0]) * T for x in st]


def judge_calendar(case: dict, canon: dict, desc: dict) -> list[dict]:
    V: list[dict] = []
    cfg = case["cfg"]
    T, dt = case["T"], cfg["dt"]

    def viol(clause: str, site: str, msg: str) -> None:
        V.append({"clause": clause, "site": site, "msg": msg + f" :: {desc}"})

    cal = executed_calendar(canon, T)
    if cal is None:
        viol("C21.no-statistics", case["backend"], "the results carry no `statistics` entry, the executed calendar cannot be read")
        return V
    tolT = 1e-10 * max(T, 1.0) + 1e-12
    for a, b in zip(cal, cal[1:]):
        if not (b > a):
            viol("C21.not-increasing", case["backend"], f"executed step times not strictly increasing: ...{a!r}, {b!r}... in {cal[:12]}")
            break
    if abs(cal[-1] - T) > tolT:
        viol("C21.does-not-end-at-duration", case["backend"], f"last completed step ends at {cal[-1]!r} ns, the sequence lasts {T!r} ns")
    # every multiple of dt, every requested time
    need = CAL.grid(T, dt)
    for ts in CAL.requested_times(cfg["observables"], cfg["default_times"]).values():
        need.extend(t * T for t in ts)
    for p in need:
        if min(abs(p - c) for c in cal) > tolT:
            which = "multiple of dt" if any(abs(p - g) <= tolT for g in CAL.grid(T, dt)) else "requested evaluation time"
            viol("C21.calendar-misses-point", which.replace(" ", "-"), f"{which} {p!r} ns is not a step boundary of the executed calendar {cal[:14]}{'...' if len(cal) > 14 else ''}")
            break
    # nothing else: every executed boundary is a needed point
    for c in cal:
        if min(abs(c - p) for p in need) > tolT:
            viol("C21.calendar-extra-point", case["backend"], f"executed step boundary {c!r} ns is neither a multiple of dt nor a requested time")
            break
    return V


def run_one(tape: Tape, tier: str, opts: dict) -> dict:
    V: list[dict] = []
    probes: dict[str, int] = {}
    world = World("c21")
    world.uuid_seed = tape.int(1, 1000, "uuid_seed")
    try:
        try:
            case = K.gen_case(tape, tier, clock_revealing=False, force_backend=opts.get("backend"))
            ntraj = 1
            tkind = "-"
            if tape.bool(0.25, "multi_traj") and case["backend"] in ("sv", "mps-tdvp"):
                noise, ntraj, tkind = gen_traj_noise(tape, case["backend"])
                if case["scn"].get("xy"):
                    noise = C.xy_compatible(noise) or {"dephasing_rate": 0.5}
                case["cfg"]["noise"] = noise or None
                if tkind == "device_none":
                    case["cfg"]["prefer_device_noise"] = True
                case["cfg"]["n_trajectories"] = ntraj
            S.make_config(case["scn"], case["cfg"])
        except Exception as e:
            return {"violations": [], "cases": [], "evals": 1, "skipped": f"invalid-scenario:{type(e).__name__}", "digest": "invalid", "sim_ns": 0.0}
        seeds = (tape.seed32("seed_py"), tape.seed32("seed_np"), tape.seed32("seed_torch"))
        cfg = case["cfg"]
        T, dt = case["T"], cfg["dt"]
        desc = K.describe(case)
        desc["n_trajectories"] = ntraj
        resumed = cfg["backend"] == "mps" and ntraj == 1 and tape.bool(0.3, "with_resume")
        pol = None
        if resumed:
            _, pol = C.clock_policy(tape, cfg["autosave_dt"], tape.choice(["every", "period"], "rclock"))
        out, cnt = K.run_case(world, case, seeds, autosave=resumed, policy=pol, record=resumed)
        evals = 1
        n_intervals = 0
        if K.numerical_refusal(out):
            return {"violations": [], "cases": [], "evals": 1, "skipped": "krylov-refused-the-step-size", "digest": world.log.digest(), "scenario": desc, "sim_ns": 0.0}
        if out.error is not None:
            V.append({"clause": "C21.run-raised", "site": out.error_site or "?", "msg": f"run() raised {out.error!r} on inputs pulser accepts :: {desc}"})
        else:
            canon = out.results
            if ntraj == 1:
                V.extend(judge_calendar(case, canon, desc))
                cal = executed_calendar(canon, T) or [0.0]
                n_intervals = len(cal) - 1
                steps = cnt.mps_steps if cfg["backend"] == "mps" else cnt.sv_steps
                if steps and steps != n_intervals:
                    V.append({"clause": "C21.step-count", "site": case["backend"], "msg": f"{steps} solver steps were completed for {n_intervals} calendar intervals :: {desc}"})
            # trajectories: as many simulations as requested
            if cnt.trajectories != ntraj:
                V.append({"clause": "C21.trajectory-count", "site": f"{case['backend']}|{tkind}", "msg": f"{cnt.trajectories} trajectories were simulated, n_trajectories = {ntraj} :: {desc}"})
            if ntraj > 1:
                probes["multi_trajectory"] = 1
                if tkind == "lindblad":
                    probes["trajectory_invariant_noise_reps"] = 1
                steps = cnt.mps_steps if cfg["backend"] == "mps" else cnt.sv_steps
                exp = len(CAL.expected_calendar(T, dt, cfg["observables"], cfg["default_times"])) - 1
                if steps and steps != exp * ntraj:
                    V.append({"clause": "C21.step-count", "site": f"{case['backend']}|multi", "msg": f"{steps} solver steps over {ntraj} trajectories, expected {exp} per trajectory :: {desc}"})
            if resumed and out.worlds:
                base = M.advertised_name(out.worlds, out.leftover, C.PREFIX)
                cache: dict = {}
                cands = [w for w in out.worlds if base and M.loadable(w["files"].get(base), cache)[0] and C.stage_of(w, out.progress_calls) == "run"]
                if cands:
                    w = cands[tape.int(0, len(cands) - 1, "resume_from")]
                    rs = C.resume_run(world, case, w["files"], base, out.rng_by_sha.get(M.sha(w["files"][base])), tape.bool(0.5, "as_path"), (lambda n: 0.003))
                    evals += 1
                    probes["resumed_run"] = 1
                    if rs.error is not None:
                        V.append({"clause": "C21.resume-raised", "site": rs.error_site or "?", "msg": f"resume raised {rs.error!r} :: {desc}"})
                    else:
                        for v in judge_calendar(case, rs.results, desc):
                            v["clause"] += "-after-resume"
                            V.append(v)
        notmult = abs(T / dt - round(T / dt)) > 1e-9
        alltimes = [t for o in cfg["observables"] for t in (o["times"] if o["times"] is not None else (cfg["default_times"] or [1.0]))]
        offgrid = any(abs(t * T / dt - round(t * T / dt)) > 1e-9 and t not in (0.0, 1.0) for t in alltimes)
        if notmult:
            probes["duration_not_multiple_of_dt"] = 1
        if dt > T:
            probes["dt_above_duration"] = 1
        if dt < 1:
            probes["dt_below_1ns"] = 1
        if case["scn"].get("modulation"):
            probes["modulated_run"] = 1
        if case["backend"] == "mps-noisy":
            probes["jump_search_run"] = 1
        if T == 1.0:
            probes["duration_1ns"] = 1
        if T >= 1000:
            probes["long_duration"] = 1
        dtc = "gt" if dt > T else ("lt1" if dt < 1 else ("int" if float(dt).is_integer() else "frac"))
        nb = "0" if n_intervals == 0 else ("1-2" if n_intervals <= 2 else ("3-10" if n_intervals <= 10 else "11+"))
        key = f"{case['backend']}|dt={dtc}|{case['dur_class']}|mod={int(bool(case['scn'].get('modulation')))}|n={nb}|traj={'1' if ntraj == 1 else tkind}|{'res' if resumed else 'one'}"
        return {
            "violations": V,
            "cases": [(key, bool(n_intervals >= 3 and (offgrid or notmult)) or ntraj > 1)],
            "evals": evals,
            "probes": probes,
            "digest": world.log.digest() + M.sha(repr(R.summarize(out.results) if out.results else out.error_site).encode()),
            "scenario": desc,
            "sample": {"scenario": desc, "executed_calendar_ns": (executed_calendar(out.results, T) or [])[:20]} if out.results and ntraj == 1 else None,
            "sim_ns": T * world.n_inc * ntraj,
            "sim_wall_s": world.clock.total_advanced,
            "faults": {"crash": 1} if probes.get("resumed_run") else {},
        }
    finally:
        world.close()
