"""C19 - Brent root finding terminates inside the bracket at a sign change.

The root finder is a protocol: get_next_abscissa() / provide_ordinate(), driven one
evaluation per solver sweep.  The simulator plays the environment: it owns the function
being searched and answers every query from the seeded tape - smooth, discontinuous,
wildly scaled, epsilon-straddling, exactly zero, or adaptively chosen to keep the larger
sub-interval.  Answers are memoised per abscissa, so the environment always is *a
function*.  Oracle over the recorded dialogue: every abscissa inside [start, end]; the
dialogue ends within a stated evaluation budget; the returned point is one end of an
evaluated pair closer than the tolerance whose ordinates have opposite sign (zero counts
as either); find_root_brents and the one-at-a-time dialogue ask the same questions."""
from __future__ import annotations

import math
from typing import Any

from ..seams import HarnessError
from ..tape import Tape

ID = "C19"
LEVEL = "exploration"
RULE = (
    "One case = one root-finding dialogue against a tape-driven adversarial function (strategies: smooth monotone, smooth "
    "multi-root, step, random sign, keep-larger-subinterval adaptive, real functions with late steep crossings (kinked ramps, odd "
    "powers, cliffs, flat-then-steep), one-step lookahead on a copy of the finder (goals: overshoot the bracket, hug a bracket end, keep the bracket wide); magnitudes: function value, log-uniform 1e-200..1e200, "
    "epsilon-straddling, exact zeros; epsilon in {1e-12,1e-6,1e-3,1,10}; tolerance from 4 ulp to the bracket width; brackets "
    "with start=0, negative, huge and tiny abscissas). Non-trivial iff >= 3 evaluations were needed; distinct by (epsilon, "
    "sign strategy, magnitude strategy, hash of the bisection/interpolation decision sequence)."
)
COMPONENTS = {"real": ["emu_base.math.brents_root_finding.BrentsRootFinder", "find_root_brents"], "stubbed": ["the function being searched (the adversary)"]}
PROBES = ["interpolation_step_taken", "bisection_forced_after_interpolation", "exact_zero_answered", "bracket_already_below_tolerance", "endpoint_swap_at_construction", "solver_configuration_eps1_tol1", "more_than_2N_evaluations", "abscissa_equals_endpoint", "real_function_shapes", "lookahead_adversary"]
ASSUMPTIONS = [
    "tolerance >= 4 ulp of the larger bracket end (below one ulp no bracketing method can converge)",
    "the environment is a function: the same abscissa always gets the same ordinate (the inconsistent case belongs to C18)",
    "ordinates are finite, non-NaN floats",
]

LOGMAG = float(__import__("os").environ.get("EMUSIM_C19_LOGMAG", "200"))
ZEROS = __import__("os").environ.get("EMUSIM_C19_ZEROS", "1") == "1"
SIGN_STRATS = ["hidden_root", "multi_root", "random_sign", "keep_larger", "keep_smaller_then_larger", "function", "lookahead"]
FUNCTION_SHAPES = ["kinked", "kinked2", "power", "cliff", "flat_then_steep"]
LOOKAHEAD_GOALS = ["overshoot", "stall", "edge"]
MAG_STRATS = ["smooth", "loguniform", "near_epsilon", "const", "tiny_at_b"]


def plan(tier: str) -> dict:
    if tier == "quick":
        return {"runs": 1920, "wall_s": 120, "task_timeout": 300}
    return {"runs": 6400, "wall_s": 1500, "task_timeout": 600}


def _finder():
    try:
        from emu_base.math.brents_root_finding import BrentsRootFinder, find_root_brents
    except Exception as e:  # pragma: no cover
        raise HarnessError(f"BrentsRootFinder API not importable: {e!r}")
    return BrentsRootFinder, find_root_brents


class Adversary:
    def __init__(self, tape: Tape, start: float, end: float, fs: float, fe: float, eps: float, sign: str, mag: str):
        self.tape = tape
        self.lo, self.hi = start, end  # current sign-change bracket as seen by the adversary
        self.flo, self.fhi = fs, fe
        self.eps = eps
        self.sign, self.mag = sign, mag
        self.memo: dict[float, float] = {start: fs, end: fe}
        self.order: list[float] = []
        w = end - start
        self.root = start + w * tape.float(0.0, 1.0, "root_pos")
        self.k = tape.choice([1.0, 3.0, 0.5, 40.0], "shape")
        self.freq = tape.choice([1, 3, 5], "odd_roots")
        self.scale = 10.0 ** tape.int(-6, 6, "scale")
        self.zero_p = tape.choice([0.0, 0.0, 0.02, 0.2], "zero_p") if ZEROS else 0.0
        self.n = 0
        self.start, self.end, self.tol = start, end, None
        self.fn = None
        self.goal = None
        if sign == "function":
            self._build_function(fs, fe)
        if sign == "lookahead":
            self.goal = tape.choice(LOOKAHEAD_GOALS, "goal")
            self.rel = [10.0 ** e for e in (-12, -6, -3, -2, -1)] + [0.3, 0.5, 0.9, 1.0, 1.1, 2.0, 10.0, 1e3, 1e6]

    # ---- a real (continuous or piecewise continuous) function through (start, fs) and (end, fe) ------------------
    def _build_function(self, fs: float, fe: float) -> None:
        tp = self.tape
        shape = tp.choice(FUNCTION_SHAPES, "fn_shape")
        a, b = self.start, self.end
        w = b - a
        mirror = tp.bool(0.5, "fn_mirror")  # put the feature near the start instead of near the end
        q = tp.choice([0.5, 0.7, 0.9, 0.95, 0.99, 0.999], "fn_kink")
        r = 10.0 ** (-tp.int(0, 6, "fn_small"))  # |f| just before the steep part, relative to |fs|
        q2 = tp.float(0.05, 0.95, "fn_kink2")
        k = tp.choice([3, 5, 9, 21, 51], "fn_power")

        def unit(u: float) -> float:
            """monotone map [0,1] -> [-1, +big]: negative on most of the interval, crossing late"""
            if shape == "kinked":
                return (-1.0 + (1.0 - r) * u / q) if u <= q else (-r + (u - q) / (1.0 - q) * (r + 1.0))
            if shape == "kinked2":
                qa = q * q2
                if u <= qa:
                    return -1.0 + 0.5 * u / qa
                if u <= q:
                    return -0.5 + (0.5 - r) * (u - qa) / (q - qa)
                return -r + (u - q) / (1.0 - q) * (r + 1.0)
            if shape == "power":
                return math.copysign(abs((u - q) / max(q, 1.0 - q)) ** k, u - q)
            if shape == "cliff":
                return -1.0 if u < q else 1.0
            # flat_then_steep: exponentially small slope, then a wall
            return -r * (1.0 - u) - (1.0 - r) * math.exp(-40.0 * u) + (math.exp(60.0 * (u - q)) - math.exp(-60.0 * q)) * (u > q)

        ya, yb = unit(0.0), unit(1.0)
        if not (ya < 0.0 < yb):
            shape, q = "kinked", 0.9
            ya, yb = unit(0.0), unit(1.0)

        def fn(x: float) -> float:
            u = (x - a) / w
            if mirror:
                v = -unit(1.0 - u)  # point reflection: the steep crossing sits near the start, v(0) < 0 < v(1) still
                lo_, hi_ = -yb, -ya
            else:
                v = unit(u)
                lo_, hi_ = ya, yb
            # scale the negative part to fs and the positive part to fe (keeps the function continuous at its root)
            if fs < 0:
                return v / abs(lo_) * abs(fs) if v < 0 else v / abs(hi_) * abs(fe)
            return -(v / abs(lo_) * abs(fs)) if v < 0 else -(v / abs(hi_) * abs(fe))

        self.fn = fn
        self.fn_desc = {"shape": shape, "mirror": mirror, "kink": q, "small": r, "power": k}

    # ---- one-step lookahead on a copy of the finder: the environment answers whatever hurts most ------------------
    def _lookahead(self, x: float, rf: Any) -> float:
        import copy

        w = self.end - self.start
        ref = max(min(abs(self.flo), abs(self.fhi)), 1e-300)
        big = max(abs(self.flo), abs(self.fhi))
        cands = [sg * m * rr for sg in (1.0, -1.0) for m in (ref, big) for rr in self.rel]
        cands.append(self.tape.choice([1.0, -1.0], "la_sgn") * 10.0 ** self.tape.float(-30.0, 30.0, "la_mag"))
        best, best_score = None, None
        for y in cands:
            if not math.isfinite(y) or y == 0.0:
                continue
            try:
                c = copy.deepcopy(rf)
                c.provide_ordinate(x, y)
                if self.tol is not None and c.is_converged(self.tol):
                    score = -1e9  # ends the game
                else:
                    x2 = c.get_next_abscissa()
                    if self.goal == "overshoot":
                        score = max(self.start - x2, x2 - self.end) / w
                    elif self.goal == "edge":
                        score = -min(abs(x2 - getattr(c, "a", self.lo)), abs(x2 - getattr(c, "b", self.hi))) / w
                    else:  # stall: keep the bracket as wide as possible
                        score = abs(getattr(c, "a", self.lo) - getattr(c, "b", self.hi)) / w
                    if math.isnan(x2):
                        score = 1e9
            except Exception:
                score = 1e9  # an exception is what we are looking for
            if best_score is None or score > best_score:
                best, best_score = y, score
        return best if best is not None else self.scale

    def _sign(self, x: float) -> float:
        s0 = 1.0 if self.fhi > 0 else -1.0  # sign at the upper end of the original bracket
        if self.sign == "hidden_root":
            return s0 if x > self.root else -s0
        if self.sign == "multi_root":
            ph = (x - min(self.memo)) / (max(self.memo) - min(self.memo) + 1e-300)
            v = math.cos(math.pi * self.freq * ph)  # +1 at start, -1 at end for odd freq
            return -s0 if v >= 0 else s0
        if self.sign == "random_sign":
            return 1.0 if self.tape.bool(0.5, "sgn") else -1.0
        # adaptive: look at the current bracket [lo, hi] that still has a sign change
        if not (self.lo < x < self.hi):
            return 1.0 if self.tape.bool(0.5, "sgn_out") else -1.0
        left, right = x - self.lo, self.hi - x
        keep_left = left >= right
        if self.sign == "keep_smaller_then_larger" and self.n < 3:
            keep_left = not keep_left
        # keeping [lo, x] means f(x) gets the sign of f(hi)
        return math.copysign(1.0, self.fhi) if keep_left else math.copysign(1.0, self.flo)

    def _mag(self, x: float, sgn: float) -> float:
        if self.zero_p and self.tape.bool(self.zero_p, "zero"):
            return 0.0
        if self.mag == "smooth":
            d = abs(x - self.root) / (abs(self.hi - self.lo) + abs(x - self.root) + 1e-300)
            return self.scale * (d ** self.k + 1e-18)
        if self.mag == "loguniform":
            return 10.0 ** self.tape.float(-LOGMAG, LOGMAG, "logmag")
        if self.mag == "near_epsilon":
            ref = self.tape.choice([abs(self.flo), abs(self.fhi)], "eps_ref")
            v = abs(ref + self.eps * self.tape.choice([0.5, 0.999, 1.0, 1.001, 2.0], "eps_mult") * (1 if self.tape.bool(0.5, "eps_dir") else -1))
            return v if v > 1e-9 * max(abs(ref), self.eps) else max(abs(ref), self.eps)
        if self.mag == "const":
            return self.scale
        # tiny_at_b: make the most recent point look like an excellent guess
        return self.scale * 10.0 ** (-self.tape.int(0, 30, "tiny"))

    def f(self, x: float, rf: Any = None) -> float:
        if x in self.memo:
            return self.memo[x]
        self.n += 1
        if self.sign == "function" and self.fn is not None:
            y = self.fn(x)
        elif self.sign == "lookahead" and rf is not None:
            y = self._lookahead(x, rf)
        else:
            s = self._sign(x)
            y = s * self._mag(x, s)
        s = 1.0 if y >= 0 else -1.0
        if math.isnan(y) or math.isinf(y):
            y = s * 1.0
        self.memo[x] = y
        self.order.append(x)
        # maintain the adversary's own view of a sign-change bracket
        if self.lo < x < self.hi:
            if y == 0.0 or (y > 0) == (self.fhi > 0):
                self.hi, self.fhi = x, (y if y != 0.0 else self.fhi)
            else:
                self.lo, self.flo = x, y
        return y


def gen_bracket(tape: Tape) -> tuple[float, float]:
    kind = tape.choice(["solver_like", "unit", "zero_start", "negative", "huge", "tiny", "straddle"], "bracket_kind")
    if kind == "solver_like":
        a = round(tape.float(0.0, 4000.0, "a"), 3)
        w = tape.choice([0.3, 1.0, 2.5, 10.0, 25.0, 100.0, 1000.0], "w")
        return a, a + w
    if kind == "unit":
        return 0.0, 1.0
    if kind == "zero_start":
        return 0.0, tape.choice([1e-6, 1.0, 50.0, 1e6], "w")
    if kind == "negative":
        a = -tape.float(1.0, 1e4, "a")
        return a, a + tape.float(0.5, 1e3, "w")
    if kind == "huge":
        a = tape.float(1e8, 1e12, "a")
        return a, a + tape.float(1e3, 1e9, "w")
    if kind == "tiny":
        a = tape.float(1e-9, 1e-6, "a")
        return a, a + tape.float(1e-9, 1e-6, "w")
    a = -tape.float(0.1, 100.0, "a")
    return a, tape.float(0.1, 100.0, "b")


def dialogue(tape: Tape) -> dict:
    BrentsRootFinder, find_root_brents = _finder()
    start, end = gen_bracket(tape)
    eps = tape.choice([1.0, 1e-6, 1e-12, 1e-3, 10.0], "epsilon")
    width = end - start
    ulp = math.ulp(max(abs(start), abs(end)))
    tol_kind = tape.choice(["solver", "fine", "coarse", "min", "wider_than_bracket"], "tol_kind")
    if tol_kind == "solver":
        tol = 1.0 if width > 1.0 else width / 8.0
    elif tol_kind == "fine":
        tol = width * 10.0 ** (-tape.int(3, 12, "tol_exp"))
    elif tol_kind == "coarse":
        tol = width / tape.choice([2.0, 3.0, 10.0], "tol_div")
    elif tol_kind == "min":
        tol = 4.0 * ulp
    else:
        tol = width * 2.0
    tol = max(tol, 4.0 * ulp)
    s0 = 1.0 if tape.bool(0.5, "sign_at_end") else -1.0
    m1 = 10.0 ** tape.int(-8, 8, "mag_start")
    m2 = 10.0 ** tape.int(-8, 8, "mag_end")
    fs, fe = -s0 * m1, s0 * m2
    sign = tape.choice(SIGN_STRATS, "sign_strat")
    mag = tape.choice(MAG_STRATS, "mag_strat")
    adv = Adversary(tape, start, end, fs, fe, eps, sign, mag)
    adv.tol = tol
    N = max(1, math.ceil(math.log2(max(width / tol, 2.0))))
    budget = 2 * (N + 2) ** 2 + 10
    viol: list[dict] = []
    probes: dict[str, int] = {}
    desc = {"start": start, "end": end, "f_start": fs, "f_end": fe, "epsilon": eps, "tolerance": tol, "sign": sign, "mag": mag, "N": N, "budget": budget}
    if sign == "function":
        desc["function"] = adv.fn_desc
        probes["real_function_shapes"] = 1
    if sign == "lookahead":
        desc["goal"] = adv.goal
        probes["lookahead_adversary"] = 1

    def V(clause: str, site: str, msg: str) -> None:
        viol.append({"clause": clause, "site": site, "msg": msg + f" :: dialogue={desc} queries={[(x, adv.memo[x]) for x in adv.order[:12]]}"})

    if abs(fs) < abs(fe):
        probes["endpoint_swap_at_construction"] = 1
    if eps == 1.0 and tol == 1.0:
        probes["solver_configuration_eps1_tol1"] = 1
    decisions: list[int] = []
    xs: list[float] = []
    result = None
    try:
        rf = BrentsRootFinder(start=start, end=end, f_start=fs, f_end=fe, epsilon=eps)
        if rf.is_converged(tol):
            probes["bracket_already_below_tolerance"] = 1
        n = 0
        while not rf.is_converged(tol):
            if n >= budget:
                V("C19.no-termination", f"eps={eps:g}", f"the dialogue did not converge within {budget} evaluations (N={N})")
                break
            x = rf.get_next_abscissa()
            n += 1
            xs.append(x)
            decisions.append(1 if getattr(rf, "bisection", False) else 0)
            if not (start <= x <= end) or math.isnan(x):
                V("C19.outside-bracket", f"eps={eps:g}", f"query #{n} at {x!r} is outside [{start!r}, {end!r}]")
                break
            if x == start or x == end:
                probes["abscissa_equals_endpoint"] = 1
            y = adv.f(x, rf)
            if y == 0.0:
                probes["exact_zero_answered"] = 1
            rf.provide_ordinate(x, y)
        else:
            result = rf.current_guess
    except Exception as e:
        import traceback

        tb = traceback.extract_tb(e.__traceback__)
        where = tb[-1].name if tb else "?"
        V("C19.raised", f"{type(e).__name__}@{where}", f"the root finder raised {e!r} after {len(xs)} evaluations")
    if 0 in decisions:
        probes["interpolation_step_taken"] = 1
        if any(decisions[i] == 0 and decisions[i + 1] == 1 for i in range(len(decisions) - 1)):
            probes["bisection_forced_after_interpolation"] = 1
    if len(xs) > 2 * N + 4:
        probes["more_than_2N_evaluations"] = 1
    if result is not None and not viol:
        E = dict(adv.memo)
        if result not in E:
            V("C19.result-not-evaluated", f"eps={eps:g}", f"returned {result!r}, which was never evaluated")
        else:
            yr = E[result]
            ok = any((x != result or yr == 0.0) and abs(x - result) < tol and (y * yr <= 0.0) for x, y in E.items())
            if not ok:
                near = sorted(E.items(), key=lambda kv: abs(kv[0] - result))[:4]
                V("C19.result-not-at-sign-change", f"eps={eps:g}", f"returned {result!r} (f={yr!r}) but no evaluated point within tol={tol!r} has the opposite sign; nearest evaluated points: {near}")
        # the function-driven entry point must ask the same questions
        asked: list[float] = []

        def f(x: float) -> float:
            asked.append(x)
            if x not in E:
                raise KeyError(x)
            return E[x]

        try:
            r2 = find_root_brents(f, start=start, end=end, f_start=fs, f_end=fe, tolerance=tol, epsilon=eps)
            if asked != xs or r2 != result:
                V("C19.dialogue-differs", f"eps={eps:g}", f"find_root_brents asked {asked[:8]}... and returned {r2!r}; the one-at-a-time dialogue asked {xs[:8]}... and returned {result!r}")
        except KeyError as e:
            V("C19.dialogue-differs", f"eps={eps:g}", f"find_root_brents asked for {e.args[0]!r}, which the one-at-a-time dialogue never asked")
        except Exception as e:
            V("C19.raised", f"{type(e).__name__}@find_root_brents", f"find_root_brents raised {e!r}")
    import hashlib

    dh = hashlib.sha256(bytes(decisions)).hexdigest()[:10]
    return {
        "violations": viol,
        "case": (f"eps={eps:g}|{sign}|{mag}|{dh}", len(xs) >= 3),
        "probes": probes,
        "n_evals": len(xs),
        "desc": {**desc, "abscissas": xs[:10], "result": result, "evaluations": len(xs)},
    }


def run_one(tape: Tape, tier: str, opts: dict) -> dict:
    import hashlib

    if opts.get("single"):
        d = dialogue(tape)
        return {"violations": d["violations"], "cases": [d["case"]], "evals": 1, "probes": d["probes"], "digest": hashlib.sha256(repr(d["desc"]).encode()).hexdigest(), "scenario": d["desc"]}
    n = 150 if tier == "quick" else 400
    viol: list[dict] = []
    cases = []
    probes: dict[str, int] = {}
    h = hashlib.sha256()
    sample = None
    total_q = 0
    for i in range(n):
        sub = Tape(seed=tape.int(0, 2**62, "sub"))
        d = dialogue(sub)
        h.update(repr(d["desc"]).encode())
        cases.append(d["case"])
        total_q += d["n_evals"]
        for k, c in d["probes"].items():
            probes[k] = probes.get(k, 0) + c
        for v in d["violations"]:
            v["tape_override"] = sub.record
            v["opts_override"] = {"single": "1"}
            viol.append(v)
        if sample is None and d["n_evals"] >= 5:
            sample = d["desc"]
    return {"violations": viol, "cases": cases, "evals": n, "probes": probes, "digest": h.hexdigest(), "sample": sample, "sim_ns": 0.0, "faults": {"adversarial_ordinates": total_q}}
