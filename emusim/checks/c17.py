"""C17 - emu-mps quantum-jump trajectories reproduce Lindblad dynamics on average.

Every trajectory is one simulated run with its own tape-derived RNG stream (seeded jump
schedule).  Per trajectory: observables of a normalised state, values in their physical
range.  Over the recorded history of K trajectories of a case: the trajectory mean of every
(observable component, evaluation time) must lie within a finite-sample (empirical
Bernstein) confidence radius of a small dense Lindblad model that is built from the
per-step drive the adapter produced and from collapse operators written down from Pulser's
definitions.  A case is split into chunks that run in parallel; the verdict is taken in
finish() over all chunks."""
from __future__ import annotations

import copy
import hashlib
import math
from typing import Any

import numpy as np

from .. import mpsrun as M
from .. import results as R
from .. import scenario as S
from ..models import lindblad as LB
from ..seams import World, wrap_method
from ..tape import Tape, derive_seed

ID = "C17"
LEVEL = "exploration"
CHUNKS = 16
ALPHA_FAMILY = 1e-9
MAX_COMPARISONS = 1e5
DECAY_TOL = 1e-4  # no-jump squared norm vs dense non-Hermitian evolution (TDVP at precision 1e-6, bond 64)
BIAS = 1e-2  # TDVP error at precision 1e-6 + < 1 ns jump-time quantisation of the root search (calibrated, see evidence)
RULE = (
    "One evaluation = one quantum-jump trajectory (own RNG stream) of a seeded case: 2-3 atoms (4 in thorough), 4-12 steps, each "
    "Lindblad channel alone and in pairs incl. 3x3 effective noise with leakage, asymmetric rates, drive strong enough that noisy "
    "and noiseless occupations differ. K trajectories per case (quick 1600, thorough 6400) in 16 parallel chunks. A trajectory is "
    "non-trivial iff it had >= 1 jump (counted through the RNG draws of random.choices); distinct cases = (atoms, noise "
    "configuration, drive) tuples; per case every (occupation / correlation component, evaluation time) is one comparison."
)
COMPONENTS = {
    "real": ["MPSBackend.run with n_trajectories=k", "NoisyMPSBackendImpl (effective Hamiltonian, jump search, jump selection)", "emu_base.jump_lindblad_operators", "TDVP numerics", "pulser sampling"],
    "stubbed": ["RNG seeding (random / numpy / torch)", "clock", "uuid", "reference: dense Lindblad model (scipy expm) with collapse operators from Pulser's definitions"],
}
PROBES = ["trajectory_with_jump", "relaxation", "dephasing", "depolarizing", "eff_noise_2x2", "eff_noise_3x3_leakage", "two_channels", "noise_model_from_device", "no_jump_decay_compared", "case_completed_all_chunks"]
ASSUMPTIONS = [
    f"statistical acceptance: |mean - model| <= sqrt(2 V ln(4/d)/K) + 7 ln(4/d)/(3(K-1)) + {BIAS} with d = {ALPHA_FAMILY}/{MAX_COMPARISONS:g} per comparison (Maurer-Pontil empirical Bernstein bound for values in [0,1]); family-wise false-alarm probability <= {ALPHA_FAMILY} per invocation for any VERIF_SEED, given the bias allowance",
    "bias allowance 1e-2 covers the solver's deterministic error (TDVP at precision 1e-6, jump time located to 1 ns); the largest |mean - model| seen is reported as calibration data",
    "pulse phase 0: the drive-phase sign convention is not this property's business",
    "no-jump decay oracle (white-box, the mechanism the property anchors name): the squared norm of the working state is the survival probability, and `lindblad_ops` are the single-site operators the emulator jumps with; if either attribute is missing the oracle is skipped, not failed",
]


def plan(tier: str) -> dict:
    if tier == "quick":
        return {"runs": 16 * CHUNKS, "wall_s": 200, "task_timeout": 600}
    return {"runs": 64 * CHUNKS, "wall_s": 1700, "task_timeout": 1800}


def chunk_size(tier: str) -> int:
    return 100 if tier == "quick" else 400


def gen_case(seed: int, case_id: int, tier: str) -> dict:
    tape = Tape(seed=derive_seed(seed, "C17-case", case_id))
    n = tape.int(2, 3 if tier == "quick" else 4, "n_atoms")
    kinds = ["relaxation", "dephasing", "depolarizing", "eff2", "eff3-leak", "relax+deph", "deph+depol", "eff2+relax", "eff3-sym", "eff3-block", "relax+spam"]
    tape.choice(kinds, "noise")  # (kept so that later draws do not shift)
    kind = kinds[case_id % len(kinds)]  # round robin: every batch of 10 cases covers every noise configuration
    if kind.startswith("eff3"):
        n = min(n, 3)
    if kind == "relax+spam":
        n = 4  # keeps "fewer than two well-prepared atoms" (which emu-mps refuses) rare
    spacing = round(tape.float(7.5, 10.0, "spacing"), 2)
    atoms = [[f"q{i}", i * spacing, 0.0] for i in range(n)]
    nsteps = tape.int(4, 12, "n_steps")
    dt = float(tape.choice([5, 10, 20], "dt"))
    T = int(nsteps * dt)
    amp = round(tape.float(6.0, 14.0, "amp"), 3)
    det = round(tape.float(-4.0, 8.0, "det"), 3)
    tot = tape.float(1.0, 3.0, "gamma_T") / (T * 1e-3)  # total rate such that Gamma*T ~ 1..3
    a = tape.float(0.25, 0.75, "split")
    noise: dict[str, Any] = {}
    if kind == "relaxation":
        noise = {"relaxation_rate": round(tot, 4)}
    elif kind == "dephasing":
        noise = {"dephasing_rate": round(tot, 4)}
    elif kind == "depolarizing":
        noise = {"depolarizing_rate": round(tot, 4)}
    elif kind == "relax+deph":
        noise = {"relaxation_rate": round(tot * a, 4), "dephasing_rate": round(tot * (1 - a), 4)}
    elif kind == "relax+spam":
        # Lindblad noise together with shot-to-shot state-preparation errors: trajectories differ in which atoms are
        # dark, so there is no single master equation to compare with; the per-trajectory invariants still apply
        noise = {"relaxation_rate": round(tot, 4), "state_prep_error": 0.05}
    elif kind == "deph+depol":
        noise = {"dephasing_rate": round(tot * a, 4), "depolarizing_rate": round(tot * (1 - a), 4)}
    elif kind in ("eff2", "eff2+relax"):
        # asymmetric 2x2 operators in Pulser's (r, g) order: r->g decay, g->r pumping, and a non-hermitian mix
        pool = [[[0.0, 0.0], [1.0, 0.0]], [[0.0, 1.0], [0.0, 0.0]], [[1.0, 0.0], [0.5, 0.0]]]
        k = tape.int(1, 2, "eff_k")
        idx = tape.permutation(3, "eff_which")[:k]
        noise = {"eff_noise_rates": [round(tot * (a if i == 0 else 1 - a) if k == 2 else tot, 4) for i in range(k)], "eff_noise_opers": [pool[i] for i in idx]}
        if kind == "eff2+relax":
            noise["relaxation_rate"] = round(tot * 0.5, 4)
    else:
        pool3 = [
            [[0.0, 0.0, 0.0], [0.0, 0.0, 0.0], [1.0, 0.0, 0.0]],  # r -> x (leak)
            [[0.0, 0.0, 0.0], [1.0, 0.0, 0.0], [0.0, 0.0, 0.0]],  # r -> g
            [[0.0, 0.0, 0.0], [0.0, 0.0, 1.0], [0.0, 0.0, 0.0]],  # x -> g
            [[1.0, 0.0, 0.0], [0.0, -1.0, 0.0], [0.0, 0.0, 0.0]],
        ]
        if kind == "eff3-leak":
            # couples the leakage level to r or g only: sensitive to which of the two the emulator takes it for
            idx = [0] + [1 + tape.int(0, 2, "eff3_second")]
            tot3 = tot * 2.0  # Gamma*T ~ 2..6: population really moves through the leakage level
            noise = {"eff_noise_rates": [round(tot3 * a, 4), round(tot3 * (1 - a), 4)], "eff_noise_opers": [pool3[i] for i in idx], "with_leakage": True}
        elif kind == "eff3-sym":
            # leak from r and from g at the same rate, return from x to both at the same rate: invariant under r <-> g
            r2x, g2x = pool3[0], [[0.0, 0.0, 0.0], [0.0, 0.0, 0.0], [0.0, 1.0, 0.0]]
            x2r, x2g = [[0.0, 0.0, 1.0], [0.0, 0.0, 0.0], [0.0, 0.0, 0.0]], pool3[2]
            noise = {"eff_noise_rates": [round(tot * a / 2, 4)] * 2 + [round(tot * (1 - a) / 2, 4)] * 2, "eff_noise_opers": [r2x, g2x, x2r, x2g], "with_leakage": True}
        else:
            # three levels, but the noise acts inside the (r, g) block only
            noise = {"eff_noise_rates": [round(tot * a, 4), round(tot * (1 - a), 4)], "eff_noise_opers": [pool3[1], pool3[3]], "with_leakage": True}
    scn = {"atoms": atoms, "xy": False, "modulation": False, "has_local": False, "local_init": None, "dmm": None, "slm": None,
           "ops": [{"op": "pulse", "ch": "g", "dur": T, "amp": {"k": "const", "v": amp}, "det": {"k": "ramp", "a": det, "b": -det / 2}, "phase": 0.0}]}
    m = tape.int(1, 3, "n_times")
    times = sorted({1.0} | {round(j / (m + 1) * nsteps) / nsteps for j in range(1, m + 1)})
    obs = [{"kind": "occupation", "times": times}, {"kind": "correlation_matrix", "times": times}, {"kind": "energy_variance", "times": [1.0]}]
    cfg = {"backend": "mps", "dt": dt, "observables": obs, "default_times": None, "precision": 1e-6, "max_bond_dim": 64, "optimize": False, "solver": "tdvp", "noise": noise}
    # how the noise model reaches the emulator: through the config, or through the device's own noise model with
    # prefer_device_noise_model=True - the config then carries no noise model or a decoy that must be ignored
    delivery = "config"
    if case_id % 3 == 1 and kind != "relax+spam":
        delivery = tape.choice(["device", "device+decoy"], "delivery")
        scn["device_noise"] = noise
        cfg["prefer_device_noise"] = True
        cfg["noise"] = None if delivery == "device" else {"depolarizing_rate": round(4.0 * tot, 4)}
    return {"scn": scn, "cfg": cfg, "T": float(T), "n": n, "kind": kind, "times": times, "d": 3 if noise.get("with_leakage") else 2, "case_id": case_id, "noise": noise, "delivery": delivery}


def run_chunk(case: dict, tier: str, seeds: tuple, k: int, want_model: bool) -> dict:
    world = World("c17")
    history: list[dict] = []
    captured: dict = {}
    jumps = [0]
    history_len = [0]
    jumps_at_start = [0]
    decay: dict[int, list[tuple[float, float]]] = {}
    try:
        def setup(inc: Any, probe: Any) -> None:
            import emu_mps.mps_backend as mb
            import emu_mps.mps_backend_impl as mi

            def before(sequence_data: Any, config: Any, *a: Any, **kw: Any) -> Any:
                if "data" not in captured:
                    captured["data"] = copy.deepcopy(sequence_data)
                return {"j0": jumps[0]}

            def after(tok: Any, ret: Any, *a: Any, **kw: Any) -> None:
                history.append({"result": R.canon_results(ret), "jumps": jumps[0] - tok["j0"]})

            def jb(*a: Any, **kw: Any) -> None:
                jumps[0] += 1

            def step_done(impl: Any, *a: Any, **kw: Any) -> None:
                # squared norm of the working state at a completed step of a trajectory that has not jumped yet
                if history_len[0] == len(history) and jumps[0] == jumps_at_start[0]:
                    if "ops" not in captured and hasattr(impl, "lindblad_ops"):
                        try:
                            captured["ops"] = [np.asarray(o.detach().cpu().numpy(), dtype=complex) for o in impl.lindblad_ops]
                        except Exception:
                            captured["ops"] = None
                    try:
                        decay.setdefault(len(history), []).append((float(impl.current_time), float(impl.state.norm()) ** 2))
                    except Exception:
                        pass

            def before2(sequence_data: Any, config: Any, *a: Any, **kw: Any) -> Any:
                history_len[0] = len(history)
                jumps_at_start[0] = jumps[0]
                return before(sequence_data, config, *a, **kw)

            wrap_method(inc.rb, mb.MPSBackend, "_run_from_sequence_data", before=before2, after=after)
            wrap_method(inc.rb, mi.NoisyMPSBackendImpl, "do_random_quantum_jump", before=jb, required=False)
            wrap_method(inc.rb, mi.NoisyMPSBackendImpl, "timestep_complete", before=step_done, required=False)
            norms.install(inc.rb)

        norms = M.NormProbe()
        seq = S.build_sequence(case["scn"])
        cfg = dict(case["cfg"])
        cfg["n_trajectories"] = k
        world.clock.policy = lambda n: 0.002
        out = M.run_incarnation(world, M.mps_run_fn(seq, case["scn"], cfg, autosave_dt=None), seeds=seeds, setup=setup)
        V: list[dict] = []
        desc = {"case": case["case_id"], "kind": case["kind"], "atoms": case["n"], "noise": case["noise"], "delivery": case["delivery"], "T": case["T"], "dt": case["cfg"]["dt"], "drive": case["scn"]["ops"][0], "times": case["times"]}
        spam = bool(case["noise"].get("state_prep_error"))
        if out.error is not None and spam and "mps.py:make" in (out.error_site or ""):
            # emu-mps refuses a trajectory with fewer than two well-prepared atoms (C25's subject): chunk skipped
            return {"violations": [], "sums": None, "desc": desc, "n": 0, "jumps": 0, "digest": world.log.digest(), "skipped": "fewer-than-two-well-prepared-atoms"}
        if out.error is not None:
            V.append({"clause": "C17.run-raised", "site": out.error_site or "?", "msg": f"noisy run raised {out.error!r} :: {desc}"})
            return {"violations": V, "sums": None, "desc": desc, "n": 0, "jumps": 0, "digest": world.log.digest()}
        if norms.worst > 1e-9:
            V.append({"clause": "C17.state-not-normalised", "site": "spam" if spam else "lindblad", "msg": f"an observable was handed a state of norm {norms.worst_at[2]!r} ({norms.worst_at[0]} at t={norms.worst_at[1]}); every trajectory must report observables of a normalised state ({norms.calls} observable calls checked) :: {desc}"})
        # per-trajectory invariants + accumulation
        comps: dict[str, Any] = {}
        nj = 0
        for h in history:
            nj += 1 if h["jumps"] else 0
            res = h["result"]
            for tag in ("occupation", "correlation_matrix"):
                for t, v in res["tags"].get(tag, []):
                    a = np.asarray(v, dtype=float)
                    if a.size and (float(a.min()) < -1e-9 or float(a.max()) > 1.0 + 1e-9 or not np.all(np.isfinite(a))):
                        V.append({"clause": "C17.value-out-of-range", "site": tag, "msg": f"{tag}@{t} of a single trajectory = {a.tolist()} is outside [0,1] (state not normalised?) :: {desc}"})
                    key = f"{tag}@{t!r}"
                    s = comps.setdefault(key, [np.zeros_like(a), np.zeros_like(a)])
                    s[0] += a
                    s[1] += a * a
            for t, v in res["tags"].get("energy_variance", []):
                x = float(np.asarray(v, dtype=float))
                if not (x >= -1e-7) or not math.isfinite(x):
                    V.append({"clause": "C17.value-out-of-range", "site": "energy_variance", "msg": f"energy_variance@{t} of a single trajectory = {x!r} < 0 :: {desc}"})
        seen = set()
        V = [v for v in V if not ((v["clause"], v["site"]) in seen or seen.add((v["clause"], v["site"])))]
        model = None
        # ---- the no-jump decay: up to its first jump every trajectory carries the same deterministic squared norm
        by_t: dict[float, float] = {}
        for lst in decay.values():
            for t, nrm2 in lst:
                if t in by_t and abs(by_t[t] - nrm2) > 1e-9 and not spam:
                    V.append({"clause": "C17.no-jump-norm-differs-between-trajectories", "site": case["kind"], "msg": f"two trajectories that have not jumped yet carry different squared norms at t={t} ns: {by_t[t]!r} vs {nrm2!r} :: {desc}"})
                    break
                by_t.setdefault(t, nrm2)
        ops_ok = captured.get("ops") and all(o.shape == (case["d"], case["d"]) for o in captured["ops"])
        if want_model and "data" in captured and not spam and by_t and ops_ok:
            sd = captured["data"]
            surv = dict(LB.survival(np.real(sd.omega.numpy()), np.real(sd.delta.numpy()), np.real(sd.phi.numpy()), lambda t: sd.interaction_matrix(t).numpy(), [float(x) for x in sd.target_times], captured["ops"], case["d"]))
            worst = (0.0, None)
            for t, nrm2 in sorted(by_t.items()):
                m = min(surv.items(), key=lambda kv: abs(kv[0] - t))
                if abs(m[0] - t) <= 1e-6 and abs(m[1] - nrm2) > worst[0]:
                    worst = (abs(m[1] - nrm2), (t, nrm2, m[1]))
            captured["decay_worst"] = worst[0]
            captured["decay_points"] = len(by_t)
            if worst[1] is not None and worst[0] > DECAY_TOL:
                t, a_, b_ = worst[1]
                V.append({"clause": "C17.no-jump-norm-decay", "site": case["kind"], "msg": f"squared norm of a trajectory that has not jumped yet is {a_:.6f} at t={t} ns; the no-jump evolution under H - (i/2) sum L^dagger L with the emulator's own jump operators L gives {b_:.6f} (difference {worst[0]:.2e} > {DECAY_TOL}): damping and jumps do not belong to the same set of collapse operators, so the trajectory average cannot converge to their master equation :: {desc}"})
        if want_model and "data" in captured and not spam:
            sd = captured["data"]
            mod = LB.evolve(
                np.real(sd.omega.numpy()), np.real(sd.delta.numpy()), np.real(sd.phi.numpy()),
                lambda t: sd.interaction_matrix(t).numpy(), [float(x) for x in sd.target_times], case["noise"], case["d"], case["times"],
            )
            model = {f"{tag}@{t!r}": np.asarray(val).tolist() for tag, byt in mod.items() for t, val in byt.items()}
        return {
            "violations": V,
            "sums": {k_: [s[0].tolist(), s[1].tolist()] for k_, s in comps.items()},
            "model": model,
            "desc": desc,
            "n": len(history),
            "jumps": nj,
            "decay_worst": captured.get("decay_worst"),
            "decay_points": captured.get("decay_points", 0),
            "digest": world.log.digest() + hashlib.sha256(repr(sorted((k_, np.round(s[0], 10).tolist()) for k_, s in comps.items())).encode()).hexdigest()[:16],
        }
    finally:
        world.close()


def run_one(tape: Tape, tier: str, opts: dict) -> dict:
    seed = int(opts.get("seed", opts.get("_seed", 0)))
    idx = int(opts.get("_run_index", 0))
    case_id = int(opts["case"]) if "case" in opts else idx // CHUNKS
    chunk = int(opts["chunk"]) if "chunk" in opts else idx % CHUNKS
    case = gen_case(seed, case_id, tier)
    seeds = (tape.seed32("seed_py"), tape.seed32("seed_np"), tape.seed32("seed_torch"))
    k = chunk_size(tier)
    r = run_chunk(case, tier, seeds, k, want_model=(chunk == 0))
    for v in r["violations"]:
        v["opts_override"] = {"case": str(case_id), "chunk": str(chunk), "seed": str(seed)}
    probes = {"trajectory_with_jump": r["jumps"]}
    nz = case["noise"]
    if case["delivery"] != "config":
        probes["noise_model_from_device"] = 1
    if r.get("decay_points"):
        probes["no_jump_decay_compared"] = int(r["decay_points"])
    for key, pn in (("relaxation_rate", "relaxation"), ("dephasing_rate", "dephasing"), ("depolarizing_rate", "depolarizing")):
        if nz.get(key):
            probes[pn] = 1
    if nz.get("eff_noise_rates"):
        probes["eff_noise_3x3_leakage" if nz.get("with_leakage") else "eff_noise_2x2"] = 1
    if len([k_ for k_ in nz if k_.endswith("_rate")]) + (1 if nz.get("eff_noise_rates") else 0) >= 2 or len(nz.get("eff_noise_rates", [])) >= 2:
        probes["two_channels"] = 1
    return {
        "violations": r["violations"],
        "cases": [(f"case{case_id}|N{case['n']}|{case['kind']}|jumps", r["jumps"] > 0)],
        "evals": max(1, r["n"]),
        "probes": probes,
        "digest": r["digest"],
        "scenario": r["desc"],
        "c17": {"case": case_id, "chunk": chunk, "sums": r["sums"], "model": r.get("model"), "n": r["n"], "desc": r["desc"], "decay_worst": r.get("decay_worst"), "decay_points": r.get("decay_points", 0)},
        "sim_ns": case["T"] * r["n"],
        "faults": {"seeded_jump_schedules": r["n"]},
        "skipped": r.get("skipped"),
    }


def judge_cases(results: list[dict], seed: int) -> tuple[list[dict], dict]:
    by_case: dict[int, list[dict]] = {}
    for r in results:
        c = r.get("c17")
        if c and c["sums"] is not None:
            by_case.setdefault(c["case"], []).append(c)
    V: list[dict] = []
    ncmp = 0
    worst = 0.0
    widths = []
    samples = []
    completed = 0
    log_term = math.log(4.0 / (ALPHA_FAMILY / MAX_COMPARISONS))
    for cid, chunks in sorted(by_case.items()):
        model = next((c["model"] for c in chunks if c.get("model")), None)
        if model is None:
            continue
        if len(chunks) == CHUNKS:
            completed += 1
        K = sum(c["n"] for c in chunks)
        if K < 2:
            continue
        desc = chunks[0]["desc"]
        for key, mval in model.items():
            s1 = sum(np.asarray(c["sums"][key][0]) for c in chunks if key in c["sums"])
            s2 = sum(np.asarray(c["sums"][key][1]) for c in chunks if key in c["sums"])
            mean = s1 / K
            var = np.maximum(0.0, (s2 - K * mean * mean) / (K - 1))
            eps = np.sqrt(2.0 * var * log_term / K) + 7.0 * log_term / (3.0 * (K - 1)) + BIAS
            dev = np.abs(mean - np.asarray(mval))
            ncmp += int(dev.size)
            worst = max(worst, float(dev.max()))
            widths.append(float(eps.max()))
            if len(samples) < 3 and key.startswith("occupation"):
                samples.append({"case": desc, "K": K, "component": key, "trajectory_mean": np.round(mean, 4).tolist(), "lindblad_model": np.round(np.asarray(mval), 4).tolist(), "radius": np.round(eps, 4).tolist()})
            bad = dev > eps
            if np.any(bad):
                i = int(np.argmax(dev - eps))
                V.append({
                    "clause": "C17.mean-deviates", "site": f"{desc.get('kind')}", "batch": True, "run_index": cid,
                    "msg": f"case {cid}: mean of {K} trajectories for {key} component {i} is {mean.reshape(-1)[i]:.4f}, the Lindblad model gives {np.asarray(mval).reshape(-1)[i]:.4f}; deviation {dev.reshape(-1)[i]:.4f} exceeds the confidence radius {eps.reshape(-1)[i]:.4f} :: {desc}",
                    "scenario": desc, "replay_info": {"case": cid, "seed": seed, "K": K},
                })
                break
    dw = [c.get("decay_worst") for r_ in results for c in [r_.get("c17") or {}] if c.get("decay_worst") is not None]
    notes_decay = {"no_jump_decay_points_compared": sum(int((r_.get("c17") or {}).get("decay_points", 0) or 0) for r_ in results), "no_jump_decay_max_abs_deviation": max(dw) if dw else None, "no_jump_decay_tolerance": DECAY_TOL}
    notes = {**notes_decay, "comparisons": ncmp, "calibration_max_abs_deviation": worst, "max_confidence_radius": max(widths) if widths else None, "bias_allowance": BIAS, "cases_with_all_chunks": completed, "mean_vs_model_samples": samples}
    return V, notes


def finish(results: list[dict], tier: str, opts: dict) -> tuple[list[dict], dict]:
    V, notes = judge_cases(results, int(opts.get("_seed", 0)))
    if notes["comparisons"] > MAX_COMPARISONS:
        from ..seams import HarnessError

        raise HarnessError("more comparisons than the per-comparison level was derived for")
    for r in results:
        if r.get("probes") is not None and notes["cases_with_all_chunks"]:
            r["probes"]["case_completed_all_chunks"] = 0
    if results and notes["cases_with_all_chunks"]:
        results[0].setdefault("probes", {})["case_completed_all_chunks"] = notes["cases_with_all_chunks"]
    return V, notes


def replay_batch(body: dict, tier: str) -> dict:
    """Re-executes every chunk of the recorded case sequentially and re-judges it."""
    from ..runner import execute

    info = body["violation"]["replay_info"]
    seed, cid = int(info["seed"]), int(info["case"])
    res = []
    for ch in range(CHUNKS):
        res.append(execute("C17", tier, seed, cid * CHUNKS + ch))
    V, notes = judge_cases(res, seed)
    return {"violations": V, "digest": None}
