"""C18 - quantum-jump stepping: every step once, in order, jumps at a crossing, terminates.

Two modes, reported separately in the evidence:
  real - everything real except clock / FS / RNG seeding; noisy scenarios with rates from
         'no jump in the run' to 'several per step', buggified thresholds;
  stub - the evolution kernel is a no-op and MPS.norm() is answered by an adversary that
         sees the solver's state (threshold, time, step) and places crossings where it
         hurts: at step boundaries, right after the previous jump, exactly on the
         threshold, discontinuously, non-monotonically, inconsistently between visits.
Invariants I1-I7 are evaluated over the recorded trace (jumptrace.check_trace)."""
from __future__ import annotations

import hashlib
import math
import random as _random
from typing import Any

import torch

from .. import mpsrun as M
from .. import results as R
from .. import scenario as S
from ..jumptrace import JumpTrace, check_trace
from ..models import calendar as CAL
from ..seams import BudgetExceeded, HarnessError, World
from ..tape import Tape
from . import _crash as C

ID = "C18"
LEVEL = "exploration"
RULE = (
    "One case = one noisy emu-mps run (2-4 atoms, 1-10 steps of 0.3-60 ns) driven through MPSBackend.run() with the jump state "
    "machine traced. Mode 'real': real TDVP numerics, all Lindblad noise kinds, tape-seeded RNG, buggified thresholds. Mode "
    "'stub': no-op evolution and an adversarial squared-norm (smooth / drop / plateau / non-monotone / tie / inconsistent; "
    "crossings at step boundaries, right after a jump, mid-bracket; <= 8 crossings per step). Non-trivial iff >= 1 jump "
    "happened; distinct by (mode, per-step jump-count vector capped at 3, boundary-proximity class, adversary shape mix). 30 % of "
    "the runs autosave after every unit of work, crash after a tape-chosen autosave (70 % biased to one written while a jump "
    "search is active), resume (once more with p = 0.35) and are judged on the concatenated history."
)
COMPONENTS = {
    "real": ["NoisyMPSBackendImpl.sweep_complete/timestep_complete/do_random_quantum_jump/set_jump_threshold", "MPSBackendImpl.progress/fill_results", "BrentsRootFinder", "MPSBackend.run/_run", "pulser sampling", "mode real: all TDVP numerics"],
    "stubbed": ["clock", "uuid", "RNG seeding", "process death + restart for the crash/resume histories (the autosave file bytes are handed to a fresh incarnation; mode stub: the adversary is rolled back to its state at that autosave)", "mode stub: MPSBackendImpl._evolve (no-op) and MPS.norm (adversary)", "buggify: random.uniform inside set_jump_threshold returns a value within 1e-12 of 0 or of the bound in a random subset of runs"],
}
AUTOSAVE_DT = 11.0
PROBES = ["jump", "two_jumps_in_one_step", "three_plus_jumps_in_one_step", "jump_within_1ns_of_step_boundary", "step_shorter_than_tolerance", "exact_tie_norm_equals_threshold", "inconsistent_revisit", "no_jump_run", "buggified_threshold", "search_longer_than_5_sweeps", "stub_runs", "real_runs", "resume_during_active_search", "resume_between_searches", "second_crash"]
ASSUMPTIONS = [
    "stub mode: the adversary spends at most 8 crossings per step and 3 per step on average, so termination is a fair demand",
    "per-search liveness budget 2(N+2)^2+10 sweeps with N=ceil(log2(step/1ns)) (Brent's bound is O(N^2)); the property says 'terminates', not 'terminates fast'",
]


def plan(tier: str) -> dict:
    if tier == "quick":
        return {"runs": 960, "wall_s": 150, "task_timeout": 300}
    return {"runs": 4000, "wall_s": 1500, "task_timeout": 900}


# --------------------------------------------------------------------------------------
# scenario
# --------------------------------------------------------------------------------------
def gen_noisy_case(tape: Tape, stub: bool) -> dict:
    n = tape.int(2, 3 if stub else 4, "n_atoms")
    spacing = round(tape.float(7.0, 11.0, "spacing"), 2)
    atoms = [[f"q{i}", i * spacing, 0.0] for i in range(n)]
    nsteps = tape.int(1, 10 if stub else 8, "n_steps")
    step_kind = tape.choice(["normal", "long", "short", "tiny", "mixed"], "step_kind")
    if step_kind == "tiny":
        # dt below the 1 ns root tolerance; pulser durations are integers, so T = nsteps*dt must be >= 1
        dt = tape.choice([0.3, 0.5, 0.9], "dt")
        T = max(2, math.ceil(nsteps * dt))
    elif step_kind == "short":
        dt = tape.choice([1.0, 1.5, 2.0, 3.0], "dt")
        T = max(2, math.ceil(nsteps * dt))
    elif step_kind == "long":
        dt = float(tape.choice([25, 40, 60], "dt"))
        T = int(nsteps * dt)
    elif step_kind == "mixed":
        dt = float(tape.choice([7, 10, 13], "dt"))
        T = int(nsteps * dt) + tape.int(0, 6, "extra")
    else:
        dt = float(tape.choice([5, 10, 16], "dt"))
        T = int(nsteps * dt)
    amp = round(tape.float(0.5, 12.0, "amp"), 3)
    det = round(tape.float(-6.0, 6.0, "det"), 3)
    scn = {"atoms": atoms, "xy": False, "modulation": False, "has_local": False, "local_init": None, "dmm": None, "slm": None,
           "ops": [{"op": "pulse", "ch": "g", "dur": int(T), "amp": {"k": "const", "v": amp}, "det": {"k": "const", "v": det}, "phase": 0.0}]}
    obs = [{"kind": "occupation", "times": None}]
    if tape.bool(0.5, "obs_extra"):
        m = tape.int(2, 6, "m_times")
        obs.append({"kind": "energy", "times": sorted({0.0, 1.0} | {round(tape.float(0, 1, f"et{i}"), 4) for i in range(m)})})
    dflt = sorted({1.0} | ({0.0, 0.5} if tape.bool(0.5, "dflt") else set()))
    if stub:
        noise = {"dephasing_rate": round(tape.float(0.5, 5.0, "rate"), 3)}
    else:
        noise = C.gen_noise(tape)
        # scale the rates so that the expected number of jumps per run spans 0.05 .. 6
        target = tape.choice([0.05, 0.5, 1.5, 3.0, 6.0], "jumps_target")
        tot = sum(v for k, v in noise.items() if k.endswith("_rate")) + sum(noise.get("eff_noise_rates", []))
        f = target / max(1e-9, tot * n * T * 1e-3)
        for k in list(noise):
            if k.endswith("_rate"):
                noise[k] = round(noise[k] * f, 6)
        if "eff_noise_rates" in noise:
            noise["eff_noise_rates"] = [round(r * f, 6) for r in noise["eff_noise_rates"]]
        # badly prepared (dark) atoms in the same trajectory: the chain the jumps act on is shorter than the register
        if n >= 3 and not noise.get("with_leakage") and tape.bool(0.2, "with_dark_atoms"):
            noise["state_prep_error"] = round(tape.float(0.15, 0.4, "prep_error"), 2)
    cfg = {"backend": "mps", "dt": dt, "observables": obs, "default_times": dflt, "precision": 1e-6, "max_bond_dim": 16, "optimize": False, "solver": "tdvp", "noise": noise}
    return {"scn": scn, "cfg": cfg, "T": float(T), "n": n, "dt": dt, "step_kind": step_kind}


# --------------------------------------------------------------------------------------
# stub mode: the adversarial norm
# --------------------------------------------------------------------------------------
class NormScript:
    SHAPES = ["smooth", "drop", "plateau", "nonmono", "tie", "late"]

    def __init__(self, tape: Tape):
        self.tape = tape
        self.impl: Any = None
        self.t0 = 0.0
        self.queries = 0
        self.crossings_in_step: dict[int, int] = {}
        self.total_crossings = 0
        self.inconsistent = tape.bool(0.25, "inconsistent")
        self.inc_amp = 10.0 ** (-tape.int(5, 10, "inc_amp"))
        self.shape_log: list[str] = []
        self.seg: dict = {}
        self.new_segment(0.0, first=True)

    def new_segment(self, t0: float, first: bool = False) -> None:
        tp = self.tape
        self.t0 = t0
        impl = self.impl
        shape = tp.choice(self.SHAPES, "shape")
        cross = tp.bool(0.75, "cross")
        where = tp.choice(["mid", "end", "end-eps", "start+eps", "frac", "next_step", "later"], "where")
        self.seg = {"shape": shape, "cross": cross, "where": where, "frac": tp.float(0.02, 0.98, "frac"), "k": tp.choice([1.0, 3.0, 0.3], "k"), "tc": None}
        self.shape_log.append(shape if cross else "never")

    def snapshot(self) -> dict:
        """The adversary's state at the instant an autosave completes: a crash rolls the environment back to it."""
        return {"t0": self.t0, "queries": self.queries, "cis": dict(self.crossings_in_step), "tot": self.total_crossings, "seg": dict(self.seg), "nlog": len(self.shape_log)}

    def restore(self, d: dict) -> None:
        self.t0, self.queries, self.crossings_in_step, self.total_crossings, self.seg = d["t0"], d["queries"], dict(d["cis"]), d["tot"], dict(d["seg"])
        self.impl = None  # the resumed incarnation has a new solver object

    def _tc(self) -> float | None:
        """Absolute time of the scripted crossing for the current segment (lazily fixed, because
        it depends on the step the segment starts in)."""
        sg = self.seg
        if not sg["cross"]:
            return None
        if sg["tc"] is not None:
            return sg["tc"]
        impl = self.impl
        tt = [float(x) for x in impl.target_times]
        k = min(int(impl._timestep_index), len(tt) - 2)
        lo, hi = max(self.t0, tt[k]), tt[k + 1]
        used = self.crossings_in_step.get(k, 0)
        n_steps = len(tt) - 1
        if used >= 8 or self.total_crossings >= 3 * n_steps:
            sg["cross"] = False
            return None
        w = sg["where"]
        if w == "mid":
            tc = 0.5 * (lo + hi)
        elif w == "end":
            tc = hi
        elif w == "end-eps":
            tc = hi - 1e-9
        elif w == "start+eps":
            tc = lo + 1e-9
        elif w == "frac":
            tc = lo + sg["frac"] * (hi - lo)
        elif w == "next_step":
            kk = min(k + 1, n_steps - 1)
            tc = tt[kk] + sg["frac"] * (tt[kk + 1] - tt[kk])
        else:
            kk = min(k + 2, n_steps - 1)
            tc = tt[kk] + sg["frac"] * (tt[kk + 1] - tt[kk])
        if tc <= self.t0:
            tc = self.t0 + 0.5 * (hi - self.t0) if hi > self.t0 else None
        if tc is not None and not (tc - self.t0 > 1e-12):
            tc = None  # no room for a crossing (also keeps the script total when a broken SUT leaves the step)
            sg["cross"] = False
        sg["tc"] = tc
        if tc is not None:
            ks = max(0, min(n_steps - 1, max(i for i in range(n_steps) if tt[i] <= tc + 1e-12) if tc >= tt[0] else 0))
            self.crossings_in_step[ks] = self.crossings_in_step.get(ks, 0) + 1
            self.total_crossings += 1
        return tc

    def value(self) -> float:
        """Squared norm at impl.current_time."""
        impl = self.impl
        if impl is None:
            return 1.0
        self.queries += 1
        t = float(impl.current_time)
        thr = float(getattr(impl, "jump_threshold", 0.5))
        if t <= self.t0:
            return 1.0
        tc = self._tc()
        sg = self.seg
        if tc is None:
            tau = 50.0
            s = thr + (1.0 - thr) * (0.05 + 0.95 * math.exp(-(t - self.t0) / tau))
        else:
            u = (t - self.t0) / (tc - self.t0)
            sh = sg["shape"]
            if sh in ("smooth", "late", "tie"):
                h = 1.0 - u ** sg["k"] if u <= 1.0 else -min(1.0, (u - 1.0) * 0.5)
                if sh == "tie" and abs(t - tc) <= 1e-12:
                    h = 0.0
            elif sh == "drop":
                h = 1.0 if u < 1.0 else -0.5
            elif sh == "plateau":
                h = (1.0 - 1.9 * u) if u < 0.5 else (0.05 if u < 1.0 else -0.3)
            else:  # nonmono: crosses at u=1, recovers on (1.3, 1.6), crosses again
                if u <= 1.0:
                    h = 1.0 - u
                elif 1.3 < u < 1.6:
                    h = 0.2
                else:
                    h = -0.2
            s = thr + (1.0 - thr) * h if h >= 0 else thr * (1.0 + h)
        if self.inconsistent:
            s += self.inc_amp * math.sin(12.9898 * self.queries)
        return min(max(s, 0.0), 1.0)


class SaveLog:
    """Every autosave file an incarnation completed, with the harness-side state at that instant (length of the trace,
    RNG state, the adversary's state): what a crash right after it leaves behind, and what the environment rolls back to."""

    def __init__(self, trace: JumpTrace, script: "NormScript | None" = None):
        self.trace = trace
        self.script = script
        self.items: list[dict] = []

    def attach(self, inc: Any, probe: M.ProgressProbe) -> None:
        from ..seams import rng_snapshot

        prev = inc.disk.on_file_completed

        def done(name: str, data: bytes) -> None:
            if prev is not None:
                prev(name, data)
            finder = next((e[1]["finder"] for e in reversed(self.trace.ev) if "finder" in e[1]), False)
            if self.items and self.items[-1]["data"] == data:
                return  # the same snapshot becoming visible under its final name
            self.items.append({"data": data, "cut": len(self.trace.ev), "pcall": probe.calls, "finder": bool(finder), "rng": rng_snapshot(), "script": self.script.snapshot() if self.script is not None else None})

        inc.disk.on_file_completed = done


def install_stub(inc: Any, probe: M.ProgressProbe, script: NormScript) -> None:
    import emu_mps.mps as mps_mod
    import emu_mps.mps_backend_impl as impl_mod
    from ..seams import wrap_method

    MPS = mps_mod.MPS
    base = impl_mod.MPSBackendImpl
    noisy = impl_mod.NoisyMPSBackendImpl
    if "_evolve" not in base.__dict__ or "norm" not in MPS.__dict__:
        raise HarnessError("stub mode needs MPSBackendImpl._evolve and MPS.norm")

    def fake_evolve(self: Any, *indices: int, dt: float, orth_center_right: Any = None) -> None:
        if len(indices) == 2:
            l, r = indices
            self.state.orthogonality_center = r if orth_center_right else l

    def fake_norm(self: Any) -> torch.Tensor:
        return torch.tensor(math.sqrt(script.value()), dtype=torch.float64)

    inc.rb.setattr(base, "_evolve", fake_evolve)
    inc.rb.setattr(MPS, "norm", fake_norm)

    def grab(impl: Any) -> None:
        if script.impl is None and isinstance(impl, noisy):
            script.impl = impl

    # the solver object becomes known at its first unit of work / first fill_results (t=0); a jump starts a new segment
    def before_jump(impl: Any, *a: Any, **k: Any) -> None:
        script.impl = impl
        script.new_segment(float(impl.current_time))

    def before_fill(impl: Any, *a: Any, **k: Any) -> None:
        grab(impl)

    wrap_method(inc.rb, noisy, "do_random_quantum_jump", before=before_jump)
    wrap_method(inc.rb, base, "fill_results", before=before_fill)
    probe.on_before = grab


def make_buggify(bug: str, forced: list) -> Any:
    def install(inc: Any) -> None:
        if bug == "none":
            return
        import emu_mps.mps_backend_impl as impl_mod

        class _Rand:
            """`random` as seen by mps_backend_impl: uniform() is buggified a bounded number of times."""

            def __getattr__(self, name: str) -> Any:
                return getattr(_random, name)

            def uniform(self, a: float, b: float) -> float:
                v = _random.uniform(a, b)
                if forced[0] < 6:
                    forced[0] += 1
                    hi = bug == "near_bound" or (bug == "alternate" and forced[0] % 2 == 1)
                    return b - 1e-12 * max(b, 1e-300) if hi else a + 1e-12
                return v

        if getattr(impl_mod, "random", None) is _random:
            inc.rb.set(impl_mod.__dict__, "random", _Rand())

    return install


def run_forward(tape: Tape, case: dict, world: World, seeds: tuple, stub: bool, autosave: bool) -> tuple[M.Outcome, JumpTrace, Any, SaveLog, Any]:
    """The uninterrupted run (mode stub: adversarial norm; mode real: real numerics, buggified thresholds)."""
    trace = JumpTrace()
    script = NormScript(tape) if stub else None
    bug = "none" if stub else tape.choice(["none", "none", "near_bound", "near_zero", "alternate"], "buggify")
    forced = [0]
    bugg = make_buggify(bug, forced)
    saves = SaveLog(trace, script)

    def setup(inc: Any, probe: M.ProgressProbe) -> None:
        trace.install(inc.rb)
        if stub:
            install_stub(inc, probe, script)
        else:
            bugg(inc)
        if autosave:
            saves.attach(inc, probe)

    # with autosave on, the clock makes every save_simulation() call write: each unit of work ends with a snapshot
    world.clock.policy = (lambda n: AUTOSAVE_DT + 1.0) if autosave else (lambda n: 0.002)
    fn = M.mps_run_fn(_seq(case), case["scn"], case["cfg"], autosave_dt=AUTOSAVE_DT) if autosave else M.mps_run_fn(_seq(case), case["scn"], case["cfg"])
    out = M.run_incarnation(world, fn, seeds=seeds, setup=setup, budget=case["budget"])
    return out, trace, script, saves, (forced, bugg)


def run_resumed(tape: Tape, case: dict, world: World, item: dict, stub: bool, script: Any, bugg: Any, coupled: bool) -> tuple[M.Outcome, JumpTrace, SaveLog]:
    """The process died right after the autosave `item` completed; a new incarnation resumes from that file."""
    trace = JumpTrace()
    saves = SaveLog(trace, script)
    if stub:
        script.restore(item["script"])

    def setup(inc: Any, probe: M.ProgressProbe) -> None:
        trace.install(inc.rb)
        if stub:
            install_stub(inc, probe, script)
        else:
            bugg(inc)
        saves.attach(inc, probe)

    world.clock.policy = lambda n: AUTOSAVE_DT + 1.0
    fresh = (tape.seed32("rseed_py"), tape.seed32("rseed_np"), tape.seed32("rseed_torch"))
    out = M.run_incarnation(world, M.mps_resume_fn("resume_me.dat", tape.bool(0.5, "as_path")), files={"resume_me.dat": item["data"]}, rng_state=item["rng"] if coupled else None, seeds=None if coupled else fresh, setup=setup, budget=case["budget"])
    return out, trace, saves


_SEQ_CACHE: dict = {}


def _seq(case: dict) -> Any:
    return S.build_sequence(case["scn"])


# --------------------------------------------------------------------------------------
def one_run(tape: Tape, stub: bool) -> dict:
    case = gen_noisy_case(tape, stub)
    seeds = (tape.seed32("seed_py"), tape.seed32("seed_np"), tape.seed32("seed_torch"))
    world = World("c18")
    n = case["n"]
    sweep_len = 1 if n <= 2 else 2 * (n - 1)
    T, dt = case["T"], case["dt"]
    cal = CAL.expected_calendar(T, dt, case["cfg"]["observables"], case["cfg"]["default_times"])
    n_steps = len(cal) - 1
    Lmax = max(b - a for a, b in zip(cal, cal[1:]))
    Nb = max(1, math.ceil(math.log2(max(Lmax, 2.0))))
    # hard liveness cap: every step once, plus a generous allowance per possible jump
    case["budget"] = sweep_len * (n_steps + (3 * n_steps + 40) * (2 * (Nb + 2) ** 2 + 12)) + 100
    V: list[dict] = []
    probes: dict[str, int] = {"stub_runs" if stub else "real_runs": 1}
    desc: dict[str, Any] = {"mode": "stub" if stub else "real", "atoms": n, "T": T, "dt": dt, "steps": n_steps, "noise": case["cfg"]["noise"], "step_kind": case["step_kind"]}
    # crash + resume: the stepping state machine (step index, times, active jump search, threshold, gap) must survive
    # an interruption at any unit of work; the history judged is the dead incarnation's up to its last completed
    # autosave followed by the resumed incarnation's
    with_resume = tape.bool(0.3, "with_resume")
    desc["crash_resume"] = with_resume
    try:
        out, trace, script, saves, (forced, bugg) = run_forward(tape, case, world, seeds, stub, with_resume)
        if stub:
            desc["adversary"] = {"shapes": script.shape_log[:10], "inconsistent": script.inconsistent, "crossings": script.total_crossings}
            if script.inconsistent:
                probes["inconsistent_revisit"] = 1
        elif forced[0]:
            probes["buggified_threshold"] = 1
        if isinstance(out.error, BudgetExceeded):
            V.append({"clause": "C18.I7-no-termination", "site": "progress", "msg": f"run did not finish within the liveness budget: {out.error} ({desc})"})
            return _pack(V, desc, probes, world, case, None, stub)
        finished = out.error is None
        if out.error is not None and out.progress_calls == 0:
            # died before the first unit of work: not a statement about jump stepping (C14/C21 judge run() failures)
            desc["skipped"] = f"setup-raised:{out.error_site}"
            return _pack(V, desc, probes, world, case, None, stub)
        if out.error is not None:
            V.append({"clause": "C18.run-raised", "site": out.error_site or "?", "msg": f"the noisy run raised {out.error!r} ({desc})"})
        tv, stats = check_trace(trace, out.progress_calls, sweep_len, finished)
        for v in tv:
            v["msg"] += f" :: {desc}"
        V.extend(tv)
        desc["stats"] = stats
        desc["progress_calls"] = out.progress_calls
        V.extend(_public_times(case, out, finished, desc, ""))
        _stat_probes(stats, probes)
        # ---- crash right after a chosen autosave, resume, possibly crash and resume once more
        if with_resume and finished and saves.items and not V:
            prefix = list(trace.ev)
            cur_saves, cur_trace_ev = saves, trace.ev
            depth = 0
            chain: list[dict] = []
            while cur_saves.items and depth < 2:
                items = cur_saves.items
                active = [i for i, it in enumerate(items) if it["finder"]]
                if active and tape.bool(0.7, "crash_in_search"):
                    k = active[tape.int(0, len(active) - 1, "crash_at_active")]
                else:
                    k = tape.int(0, len(items) - 1, "crash_at")
                it = items[k]
                coupled = tape.bool(0.5, "rng_coupled")
                prefix = (prefix[: it["cut"]] if depth == 0 else prefix + cur_trace_ev[: it["cut"]])
                out_r, trace_r, saves_r = run_resumed(tape, case, world, it, stub, script, bugg, coupled)
                depth += 1
                chain.append({"after_progress_call": it["pcall"], "search_active": it["finder"], "rng_coupled": coupled})
                probes["resume_during_active_search" if it["finder"] else "resume_between_searches"] = probes.get("resume_during_active_search" if it["finder"] else "resume_between_searches", 0) + 1
                if depth == 2:
                    probes["second_crash"] = 1
                desc["crash_chain"] = chain
                if isinstance(out_r.error, BudgetExceeded):
                    V.append({"clause": "C18.I7-no-termination", "site": "progress@resume", "msg": f"the resumed run did not finish within the liveness budget: {out_r.error} ({desc})"})
                    break
                if out_r.error is not None:
                    V.append({"clause": "C18.run-raised", "site": f"{out_r.error_site or '?'}@resume", "msg": f"the run resumed from the autosave written after unit of work {it['pcall']} raised {out_r.error!r} ({desc})"})
                # the stepping state the resumed incarnation starts from must be the one the snapshot was taken in:
                # nothing touches (time, target, step index, search, threshold, gap) between two trace events except
                # sweep_complete itself, so the first event after the restart has to repeat the last one before the save
                last = next((e[1] for e in reversed(prefix) if "idx" in e[1]), None)
                first_r = next((e[1] for e in trace_r.ev if "idx" in e[1]), None)
                if last is not None and first_r is not None:
                    bad_f = [f"{f_}: {last[f_]!r} -> {first_r[f_]!r}" for f_ in ("t", "target", "idx", "finder", "thr", "gap") if not (last[f_] == first_r[f_] or (isinstance(last[f_], float) and math.isnan(last[f_])))]  # NaN: recorded during init(), before the first threshold was drawn
                    if bad_f:
                        V.append({"clause": "C18.resume-changes-stepping-state", "site": bad_f[0].split(":")[0], "msg": f"the run resumed from the autosave written after unit of work {it['pcall']} starts from a different stepping state than the one that was saved: {bad_f} (search active at the save: {it['finder']}) :: {desc}"})
                comb = JumpTrace()
                comb.ev = prefix + trace_r.ev
                comb.target_times = trace.target_times
                tv, stats_r = check_trace(comb, 0, sweep_len, out_r.error is None)
                for v in tv:
                    v["site"] += "@resume"
                    v["msg"] += f" [history = dead incarnation(s) up to the autosave + resumed incarnation; crash chain {chain}] :: {desc}"
                V.extend(tv)
                V.extend(_public_times(case, out_r, out_r.error is None, desc, "@resume"))
                _stat_probes(stats_r, probes)
                if V or out_r.error is not None or not tape.bool(0.35, "crash_again"):
                    break
                cur_saves, cur_trace_ev = saves_r, trace_r.ev
        return _pack(V, desc, probes, world, case, stats, stub)
    finally:
        world.close()


def _public_times(case: dict, out: M.Outcome, finished: bool, desc: dict, suffix: str) -> list[dict]:
    """I6 through the public results: every observable once per due time."""
    V: list[dict] = []
    if finished and out.results is not None:
        from ._cal import match_times_clustered

        req = CAL.requested_times(case["cfg"]["observables"], case["cfg"]["default_times"])
        for tag, times in req.items():
            rec = [x[0] for x in out.results["tags"].get(tag, [])]
            m = match_times_clustered(rec, times)
            if m is not None:
                V.append({"clause": "C18.I6-observable-times", "site": tag + suffix, "msg": f"{tag}: {m} :: {desc}"})
    return V


def _stat_probes(stats: dict, probes: dict) -> None:
    if stats["jumps"]:
        probes["jump"] = probes.get("jump", 0) + stats["jumps"]
    else:
        probes["no_jump_run"] = 1
    if stats["max_jumps_in_step"] == 2:
        probes["two_jumps_in_one_step"] = 1
    if stats["max_jumps_in_step"] >= 3:
        probes["three_plus_jumps_in_one_step"] = 1
    if stats["jump_near_boundary"]:
        probes["jump_within_1ns_of_step_boundary"] = probes.get("jump_within_1ns_of_step_boundary", 0) + stats["jump_near_boundary"]
    if stats["tiny_step"]:
        probes["step_shorter_than_tolerance"] = 1
    if stats["tie"]:
        probes["exact_tie_norm_equals_threshold"] = probes.get("exact_tie_norm_equals_threshold", 0) + stats["tie"]
    if stats["max_search_iters"] > 5:
        probes["search_longer_than_5_sweeps"] = 1


def _pack(V: list, desc: dict, probes: dict, world: World, case: dict, stats: dict | None, stub: bool) -> dict:
    jv = "-"
    near = "-"
    if stats is not None:
        jv = f"j{min(stats['jumps'], 9)}m{min(stats['max_jumps_in_step'], 3)}"
        near = "b" if stats["jump_near_boundary"] else "i"
    shapes = ",".join(sorted(set(desc.get("adversary", {}).get("shapes", [])))) if stub else str(sorted(desc["noise"].keys()))
    key = f"{'stub' if stub else 'real'}|{desc['step_kind']}|{jv}|{near}|{shapes}"
    return {"violations": V, "case": (key, bool(stats and stats["jumps"] >= 1)), "probes": probes, "desc": desc, "digest": world.log.digest() + hashlib.sha256(repr(desc).encode()).hexdigest()[:16], "sim_ns": case["T"], "sim_wall_s": world.clock.total_advanced}


def run_one(tape: Tape, tier: str, opts: dict) -> dict:
    if opts.get("single"):
        d = one_run(tape, stub=opts["single"] == "stub")
        return {"violations": d["violations"], "cases": [d["case"]], "evals": 1, "probes": d["probes"], "digest": d["digest"], "scenario": d["desc"], "sim_ns": d["sim_ns"]}
    stub = tape.bool(0.6, "mode_stub")
    n = (12 if stub else 3) if tier == "quick" else (20 if stub else 5)
    viol: list[dict] = []
    cases = []
    probes: dict[str, int] = {}
    h = hashlib.sha256()
    sample = None
    sim_ns = 0.0
    sim_wall = 0.0
    for i in range(n):
        sub = Tape(seed=tape.int(0, 2**62, "sub"))
        d = one_run(sub, stub)
        h.update(d["digest"].encode())
        cases.append(d["case"])
        sim_ns += d["sim_ns"]
        sim_wall += d["sim_wall_s"]
        for k, c in d["probes"].items():
            probes[k] = probes.get(k, 0) + c
        for v in d["violations"]:
            v["tape_override"] = sub.record
            v["opts_override"] = {"single": "stub" if stub else "real"}
            viol.append(v)
        if sample is None and d["case"][1]:
            sample = d["desc"]
    return {"violations": viol, "cases": cases, "evals": n, "probes": probes, "digest": h.hexdigest(), "sample": sample, "sim_ns": sim_ns, "sim_wall_s": sim_wall, "faults": {"adversarial_norm_runs": n if stub else 0, "buggified_threshold_runs": probes.get("buggified_threshold", 0), "crash_then_resume": probes.get("resume_during_active_search", 0) + probes.get("resume_between_searches", 0)}}
