"""C14 - observables are recorded exactly at their requested times.

The emulators are discrete-event loops over a calendar of target times; observables are
events that must fire exactly once when their due time is reached.  Seeded scenarios on
both backends (TDVP, DMRG, quantum jumps with backwards re-evolution, Lindblad), with the
evaluation-time / dt swarm of DESIGN section 3, optionally interrupted by a crash and
resumed (emu-mps).  Oracle over the returned Results: per observable the recorded times
are strictly increasing and equal the requested set one-to-one (1e-9), nothing else is
recorded, run() does not raise; and with the clock-revealing workload (non-interacting
atoms, constant resonant drive, Omega*T < pi) every recorded occupation equals
sin^2(Omega t_requested / 2) - the value reveals the time at which it was computed."""
from __future__ import annotations

import math
from typing import Any

import numpy as np

from .. import mpsrun as M
from .. import results as R
from .. import scenario as S
from ..seams import World
from ..tape import Tape
from . import _cal as K
from . import _crash as C

ID = "C14"
LEVEL = "exploration"
RULE = (
    "One case = one run() of a seeded scenario (2-4 atoms; durations 1 ns .. 10 us; dt from 0.1 ns to above the duration; "
    "evaluation-time sets per observable and as config default: end only, dt-grid subsets, np.linspace, irrational fractions, "
    "values 1e-9..3e-11 away from a grid point, with and without 0 and 1; modulation on/off; emu-sv, emu-sv Lindblad, emu-mps "
    "TDVP / DMRG / quantum jumps; a third of the emu-mps cases are crashed after an autosave and resumed). Non-trivial iff some "
    "requested time is off the dt grid, or equals 0, or the duration is not a multiple of dt; distinct by (backend, dt class, "
    "signature class of the evaluation-time set, modulation, clock-revealing or general workload, resumed or not)."
)
COMPONENTS = {
    "real": ["pulser sampling + Observable.__call__", "PulserData/_get_target_times", "SVBackendImpl._run/step/_apply_observables", "MPSBackendImpl.progress/timestep_complete/fill_results (+ Noisy/DMRG)", "MPSBackend.resume", "all numerics"],
    "stubbed": ["clock", "uuid", "RNG seeding", "minimize_bandwidth (scheduler-chosen permutation)", "process death for the resumed variant"],
}
PROBES = ["time_zero_requested", "off_grid_time", "near_grid_time", "duration_not_multiple_of_dt", "own_and_default_times_mixed", "clock_revealing_run", "resumed_run", "noisy_run_with_jump_search", "modulated_run", "dt_above_duration", "linspace_times", "observable_instances_reused_in_a_second_run"]
ASSUMPTIONS = [
    "requested times closer than 1e-9 (relative) to each other count as one due time",
    "emu-sv has no autosave and no jump search: for it the check is the history oracle over seeded configurations, no fault is injected",
    "clock-revealing oracle: the sampled Hamiltonian is constant, so the value is exact for any step grid (tolerance 1e-7); sampled bit strings of those runs are tested against sin^2(Omega t/2) with an exact binomial test (family-wise 1e-9 per invocation)",
]


CLOCK_BITS_LOG_ALPHA = math.log(1e-9 / 1e6)  # per comparison; far fewer than 1e6 (tag, time, run) comparisons per invocation


def plan(tier: str) -> dict:
    if tier == "quick":
        return {"runs": 1400, "wall_s": 170, "task_timeout": 300}
    return {"runs": 9000, "wall_s": 1700, "task_timeout": 900}


def _sig_class(times: list[float] | None, T: float, dt: float) -> str:
    if times is None:
        return "dflt"
    s = ""
    for t in times:
        x = t * T / dt
        on = abs(x - round(x)) < 1e-9
        s += "0" if t == 0.0 else ("1" if t == 1.0 else ("g" if on else ("n" if abs(x - round(x)) < 1e-3 else "o")))
    return "".join(sorted(set(s))) + (str(min(len(times), 4)))


def run_one(tape: Tape, tier: str, opts: dict) -> dict:
    clock = tape.bool(0.35, "clock_revealing")
    V: list[dict] = []
    probes: dict[str, int] = {}
    world = World("c14")
    world.uuid_seed = tape.int(1, 1000, "uuid_seed")
    skipped = None
    case = None
    try:
        try:
            case = K.gen_case(tape, tier, clock_revealing=clock, force_backend=opts.get("backend"))
            S.make_config(case["scn"], case["cfg"])  # pulser's own validation of the inputs
        except Exception as e:
            return {"violations": [], "cases": [], "evals": 1, "skipped": f"invalid-scenario:{type(e).__name__}", "digest": "invalid", "sim_ns": 0.0}
        seeds = (tape.seed32("seed_py"), tape.seed32("seed_np"), tape.seed32("seed_torch"))
        cfg = case["cfg"]
        T, dt = case["T"], cfg["dt"]
        desc = K.describe(case)
        resumed = cfg["backend"] == "mps" and tape.bool(0.33, "with_resume")
        pol = None
        if resumed:
            _, pol = C.clock_policy(tape, cfg["autosave_dt"], tape.choice(["every", "period"], "rclock"))
        out, cnt = K.run_case(world, case, seeds, autosave=resumed, policy=pol, record=resumed)
        evals = 1
        if K.numerical_refusal(out):
            return {"violations": [], "cases": [], "evals": 1, "skipped": "krylov-refused-the-step-size", "digest": world.log.digest(), "scenario": desc, "sim_ns": 0.0}
        if out.error is not None:
            V.append({"clause": "C14.run-raised", "site": out.error_site or "?", "msg": f"run() raised {out.error!r} on inputs pulser accepts :: {desc}"})
        else:
            V.extend(_judge(case, out.results, clock, desc, "C14"))
            if resumed and out.worlds:
                base = M.advertised_name(out.worlds, out.leftover, C.PREFIX)
                cache: dict = {}
                cands = [w for w in out.worlds if base and M.loadable(w["files"].get(base), cache)[0] and C.stage_of(w, out.progress_calls) == "run"]
                if cands:
                    w = cands[tape.int(0, len(cands) - 1, "resume_from")]
                    rs = C.resume_run(world, case, w["files"], base, out.rng_by_sha.get(M.sha(w["files"][base])), tape.bool(0.5, "as_path"), (lambda n: 0.003))
                    evals += 1
                    probes["resumed_run"] = 1
                    if rs.error is not None:
                        V.append({"clause": "C14.resume-raised", "site": rs.error_site or "?", "msg": f"resume raised {rs.error!r} :: {desc}"})
                    else:
                        for v in _judge(case, rs.results, clock, desc, "C14"):
                            v["clause"] += "-after-resume"
                            V.append(v)
        # ---- a multi-step history in one process: the same observable instances in a second config that differs only
        # in default_evaluation_times (config.with_changes-style reuse); the second run must follow ITS times
        if out.error is None and any(o["times"] is None for o in cfg["observables"]) and tape.bool(0.25, "reuse_observables"):
            holder: dict = {}
            dflt_b = S.gen_eval_times(tape, T, dt, "default_b")
            case_a = {**case, "cfg": {**cfg, "_obs_holder": holder}}
            case_b = {**case, "cfg": {**cfg, "default_times": dflt_b, "_obs_holder": holder}}
            out_a, _ = K.run_case(world, case_a, seeds)
            out_b, _ = K.run_case(world, case_b, seeds)
            evals += 2
            probes["observable_instances_reused_in_a_second_run"] = 1
            desc_b = {**desc, "default_times": dflt_b, "reused_observable_instances_after_default_times": cfg["default_times"]}
            if out_a.error is None and out_b.error is not None and not K.numerical_refusal(out_b):
                V.append({"clause": "C14.run-raised", "site": f"reused-observables|{out_b.error_site}", "msg": f"second run with the same observable instances and other default times raised {out_b.error!r} :: {desc_b}"})
            elif out_a.error is None and out_b.error is None:
                for v in _judge(case_b, out_b.results, clock, desc_b, "C14"):
                    v["clause"] += "-with-reused-observables"
                    V.append(v)
        # probes / case key
        alltimes = [t for o in cfg["observables"] for t in (o["times"] if o["times"] is not None else (cfg["default_times"] or [1.0]))]
        offgrid = any(abs(t * T / dt - round(t * T / dt)) > 1e-9 and t not in (0.0, 1.0) for t in alltimes)
        near = any(1e-12 < abs(t * T / dt - round(t * T / dt)) < 1e-3 for t in alltimes)
        zero = any(t == 0.0 for t in alltimes)
        notmult = abs(T / dt - round(T / dt)) > 1e-9
        if zero:
            probes["time_zero_requested"] = 1
        if offgrid:
            probes["off_grid_time"] = 1
        if near:
            probes["near_grid_time"] = 1
        if notmult:
            probes["duration_not_multiple_of_dt"] = 1
        if dt > T:
            probes["dt_above_duration"] = 1
        if any(o["times"] is None for o in cfg["observables"]) and any(o["times"] is not None for o in cfg["observables"]):
            probes["own_and_default_times_mixed"] = 1
        if clock:
            probes["clock_revealing_run"] = 1
        if case["scn"].get("modulation"):
            probes["modulated_run"] = 1
        if case["backend"] == "mps-noisy":
            probes["noisy_run_with_jump_search"] = 1
        if any(o["times"] is not None and len(o["times"]) >= 3 and all(abs((b - a) - (o["times"][1] - o["times"][0])) < 1e-12 for a, b in zip(o["times"], o["times"][1:])) for o in cfg["observables"]):
            probes["linspace_times"] = 1
        dtc = "gt" if dt > T else ("lt1" if dt < 1 else ("int" if float(dt).is_integer() else "frac"))
        sig = "|".join(sorted({_sig_class(o["times"], T, dt) for o in cfg["observables"]}))
        key = f"{case['backend']}|dt={dtc}|{sig}|mod={int(bool(case['scn'].get('modulation')))}|{'clock' if clock else 'gen'}|{'res' if resumed else 'one'}|{case['dur_class']}"
        return {
            "violations": V,
            "cases": [(key, bool(offgrid or zero or notmult))],
            "evals": evals,
            "probes": probes,
            "digest": world.log.digest() + M.sha(repr(R.summarize(out.results) if out.results else out.error_site).encode()),
            "scenario": desc,
            "sample": {"scenario": desc, "recorded": {tag: [x[0] for x in lst] for tag, lst in (out.results or {"tags": {}})["tags"].items() if tag != "statistics"}} if out.results else None,
            "sim_ns": T * world.n_inc,
            "sim_wall_s": world.clock.total_advanced,
            "faults": {"crash": 1} if probes.get("resumed_run") else {},
        }
    finally:
        world.close()


def _judge(case: dict, canon: dict, clock: bool, desc: dict, prefix: str) -> list[dict]:
    V = K.observable_time_violations(case, canon, prefix)
    for v in V:
        v["msg"] += f" :: {desc}"
    if clock and "occupation" in canon["tags"]:
        om = case["omega"]
        T = case["T"]
        for t, val in canon["tags"]["occupation"]:
            exp = math.sin(om * (t * T) * 1e-3 / 2.0) ** 2
            got = np.asarray(val, dtype=float).reshape(-1)
            if got.size == 0 or float(np.max(np.abs(got - exp))) > 1e-7:
                # which time would explain the value?
                g = float(got[0]) if got.size else float("nan")
                t_est = 2.0 * math.asin(math.sqrt(min(max(g, 0.0), 1.0))) / (om * 1e-3) if om else float("nan")
                V.append({"clause": f"{prefix}.value-not-at-requested-time", "site": case["backend"], "msg": f"occupation recorded for t={t!r} (= {t * T!r} ns) is {got.tolist()}, expected sin^2(Omega t/2) = {exp!r}; the recorded value corresponds to t = {t_est!r} ns :: {desc}"})
                break
    if clock:
        # sampled bit strings reveal the time too: every atom is excited with probability sin^2(Omega t/2), independently
        from .c15 import log_two_sided

        om, T = case["omega"], case["T"]
        n = len(case["scn"]["atoms"])
        for tag, recs in canon["tags"].items():
            if not tag.startswith("bitstrings"):
                continue
            for t, val in recs:
                cnt = val.get("__counter__") if isinstance(val, dict) else None
                if not cnt:
                    continue
                shots = sum(cnt.values())
                ones = sum(c * s_.count("1") for s_, c in cnt.items())
                p = math.sin(om * (t * T) * 1e-3 / 2.0) ** 2
                lp = log_two_sided(ones, shots * n, min(1.0, max(0.0, p)))
                if lp < CLOCK_BITS_LOG_ALPHA:
                    V.append({"clause": f"{prefix}.value-not-at-requested-time", "site": f"{case['backend']}|{tag}", "msg": f"{tag} recorded for t={t!r} (= {t * T!r} ns): {ones} of {shots} x {n} sampled bits are 1, but every atom is excited with probability sin^2(Omega t/2) = {p:.6f} at that time (exact binomial log p = {lp:.1f}); counts {dict(list(cnt.items())[:6])} :: {desc}"})
                    return V
    return V
