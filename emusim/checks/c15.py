"""C15 - sampled bit strings follow the state's measurement distribution.

The only nondeterminism here is the RNG, and the evidence says so: no clock, no fault.  It
is a simulation target because the property *is* about that nondeterminism: the RNG seam
(torch + random seeded from the tape) makes every draw replayable, per-draw invariants are
checked on every seed, and the distributional claim is decided with exact binomial tests
against an independent Born-rule model at a fixed family-wise error rate."""
from __future__ import annotations

import hashlib
import math
import random
from typing import Any

import numpy as np
import torch

from ..seams import HarnessError
from ..tape import Tape

ID = "C15"
LEVEL = "exploration"
ALPHA_FAMILY = 1e-9
MAX_COMPARISONS = 2e7  # per invocation; the per-comparison level is ALPHA_FAMILY / MAX_COMPARISONS
LOG_ALPHA = math.log(ALPHA_FAMILY / MAX_COMPARISONS)
RULE = (
    "Three cases in four = one sample() call on a random state: MPS with qubits or qutrits (bond <= 8, any orthogonality centre, not "
    "normalised), state vector, density matrix; 2-8 atoms; 1..20000 shots; false-positive / false-negative rates in [0,1] incl. "
    "0 and 1; plus product states with one or more chosen excited atoms (deterministic outcomes). Non-trivial iff >= 2 outcomes "
    "have non-zero probability; distinct by (state kind, N, physical dimension, shots bucket, error-rate class). Every fourth "
    "case = the BitStrings results of a backend run (emu-mps with / without a scheduler-chosen internal order, emu-sv, emu-sv "
    "Lindblad) on 2-5 irregularly spaced atoms: counts at each requested time against the Born distribution of the StateResult "
    "of the same scenario, with readout errors from the config's noise model and with other observables (correlation matrix, "
    "occupation, energies) evaluated on the shared state object before or after, in a tape-chosen order."
)
COMPONENTS = {"real": ["MPS.sample", "StateVector.sample", "DensityMatrix.sample", "emu_base.utils.apply_measurement_errors/readout_with_error", "index_to_bitstring", "backend variant: MPSBackend.run / SVBackend.run, BitStrings callback, fill_results / _apply_observables, permute_results"], "stubbed": ["torch / random RNG (seeded from the tape)", "backend variant: clock, uuid, minimize_bandwidth (scheduler-chosen order)"]}
PROBES = ["mps_qubit", "mps_qutrit", "state_vector", "density_matrix", "readout_errors", "pfp_equals_1", "pfn_equals_1", "shots_not_multiple_of_32", "shots_ge_5000", "product_state_position", "zero_probability_strings_present", "single_shot", "backend_run_bitstrings", "backend_bitstrings_under_non_identity_order", "backend_bitstrings_after_other_observables", "backend_readout_errors_from_config", "backend_density_matrix_run", "one_state_named_explicitly"]
ASSUMPTIONS = [
    f"statistical acceptance: exact two-sided binomial test per output string against the Born model pushed through the independent bit-flip channel, per-comparison level {ALPHA_FAMILY}/{MAX_COMPARISONS:g}, i.e. family-wise false-alarm probability <= {ALPHA_FAMILY} per invocation for any VERIF_SEED",
    "qutrit MPS: the leakage level reads as 0; false positives are not implemented there (NotImplementedError is the documented behaviour) and are not generated",
]


def plan(tier: str) -> dict:
    if tier == "quick":
        return {"runs": 640, "wall_s": 170, "task_timeout": 400}
    return {"runs": 4000, "wall_s": 1700, "task_timeout": 900}


def _rand_complex(g: torch.Generator, *shape: int) -> torch.Tensor:
    return torch.complex(torch.randn(*shape, generator=g, dtype=torch.float64), torch.randn(*shape, generator=g, dtype=torch.float64))


def channel(P: np.ndarray, n: int, pfp: float, pfn: float) -> np.ndarray:
    """Push a distribution over n-bit strings (index: atom 0 = most significant bit) through
    independent per-bit flips."""
    M = np.array([[1.0 - pfp, pfn], [pfp, 1.0 - pfn]])  # M[out, true]
    T = P.reshape((2,) * n)
    for ax in range(n):
        T = np.moveaxis(np.tensordot(M, T, axes=([1], [ax])), 0, ax)
    return T.reshape(-1)


def log_two_sided(k: int, n: int, p: float) -> float:
    from scipy.stats import binom

    if p <= 0.0:
        return 0.0 if k == 0 else -math.inf
    if p >= 1.0:
        return 0.0 if k == n else -math.inf
    lo = binom.logcdf(k, n, p)
    hi = binom.logsf(k - 1, n, p)
    return min(0.0, math.log(2.0) + min(lo, hi))


def make_state(tape: Tape, g: torch.Generator) -> dict:
    kind = tape.weighted(["mps2", "mps3", "sv", "dm", "product"], [0.3, 0.15, 0.2, 0.15, 0.2], "state_kind")
    n = tape.int(2, 8 if kind in ("mps2", "sv", "product") else (6 if kind == "mps3" else 5), "n")
    from emu_mps import MPS
    from emu_sv import DensityMatrix, StateVector

    if kind in ("mps2", "mps3"):
        d = 2 if kind == "mps2" else 3
        chi = tape.int(1, 8, "chi")
        dims = [1] + [min(chi, d ** min(i, n - i)) for i in range(1, n)] + [1]
        factors = [_rand_complex(g, dims[i], d, dims[i + 1]) for i in range(n)]
        sparsify = tape.bool(0.3, "sparsify")
        if sparsify:
            for f in factors:
                f[torch.rand(f.shape, generator=g) < 0.35] = 0.0
            if any(float(f.abs().max()) == 0.0 for f in factors):
                factors = [_rand_complex(g, dims[i], d, dims[i + 1]) for i in range(n)]
        acc = factors[0].reshape(-1, factors[0].shape[-1])
        for f in factors[1:]:
            acc = (acc @ f.reshape(f.shape[0], -1)).reshape(-1, f.shape[-1])
        amp = acc.reshape(-1).numpy()
        if float(np.sum(np.abs(amp) ** 2)) < 1e-12:
            factors = [_rand_complex(g, dims[i], d, dims[i + 1]) for i in range(n)]
            acc = factors[0].reshape(-1, factors[0].shape[-1])
            for f in factors[1:]:
                acc = (acc @ f.reshape(f.shape[0], -1)).reshape(-1, f.shape[-1])
            amp = acc.reshape(-1).numpy()
        pd_ = np.abs(amp) ** 2
        pd_ = pd_ / pd_.sum()
        # d-ary index (site 0 most significant) -> bit string
        P = np.zeros(2**n)
        for idx, pr in enumerate(pd_):
            if pr == 0.0:
                continue
            b, x = 0, idx
            digits = []
            for _ in range(n):
                digits.append(x % d)
                x //= d
            for dg in reversed(digits):
                b = (b << 1) | (1 if dg == 1 else 0)
            P[b] += pr
        st = MPS([f.clone() for f in factors], eigenstates=("r", "g") if d == 2 else ("r", "g", "x"), num_gpus_to_use=0)
        if tape.bool(0.5, "move_centre"):
            st.orthogonalize(tape.int(0, n - 1, "centre"))
        return {"kind": kind, "n": n, "d": d, "state": st, "P": P}
    if kind == "sv":
        v = _rand_complex(g, 2**n)
        if tape.bool(0.3, "sparsify"):
            v[torch.rand(v.shape, generator=g) < 0.5] = 0.0
            if float(v.abs().max()) == 0.0:
                v[0] = 1.0
        v = v / v.norm()
        P = (v.abs() ** 2).numpy()
        return {"kind": kind, "n": n, "d": 2, "state": StateVector(v.clone(), gpu=False), "P": P / P.sum()}
    if kind == "dm":
        r = tape.int(1, 4, "rank")
        A = _rand_complex(g, 2**n, r)
        rho = A @ A.mH
        rho = rho / rho.diagonal().sum().real
        P = rho.diagonal().real.numpy().copy()
        return {"kind": kind, "n": n, "d": 2, "state": DensityMatrix(rho.clone(), gpu=False), "P": P / P.sum()}
    # product state with chosen excited atoms, built through the public constructors
    which = tape.choice(["mps", "sv", "dm"], "product_impl")
    if which != "mps":
        n = min(n, 6)
    bits = [tape.bool(0.35, f"x{i}") for i in range(n)]
    if not any(bits):
        bits[tape.int(0, n - 1, "one")] = True
    s = "".join("r" if b else "g" for b in bits)
    if which == "mps":
        st = MPS.from_state_amplitudes(eigenstates=("r", "g"), amplitudes={s: 1.0})
    elif which == "sv":
        st = StateVector.from_state_amplitudes(eigenstates=("r", "g"), amplitudes={s: 1.0})
    else:
        st = DensityMatrix.from_state_vector(StateVector.from_state_amplitudes(eigenstates=("r", "g"), amplitudes={s: 1.0}))
    P = np.zeros(2**n)
    P[int("".join("1" if b else "0" for b in bits), 2)] = 1.0
    return {"kind": f"product-{which}", "n": n, "d": 2, "state": st, "P": P, "bits": "".join("1" if b else "0" for b in bits)}


def judge_counts(counts: Any, P: np.ndarray, n: int, shots: int, pfp: float, pfn: float, site: str, desc: dict, probes: dict, floor: float = 0.0) -> tuple[list[dict], int, int]:
    """Per-draw invariants + exact binomial test of every output string against the Born model P pushed through the
    independent bit-flip channel.  Returns (violations, number of comparisons or -1 if malformed, support size)."""
    V: list[dict] = []
    counts = {str(k): int(v) for k, v in counts.items()}
    desc["counts_head"] = dict(sorted(counts.items(), key=lambda kv: -kv[1])[:6])
    tot = sum(counts.values())
    if tot != shots:
        V.append({"clause": "C15.total-count", "site": site, "msg": f"{tot} samples returned for num_shots={shots} :: {desc}"})
    bad = [k for k in counts if len(k) != n or set(k) - {"0", "1"}]
    if bad:
        V.append({"clause": "C15.malformed-string", "site": site, "msg": f"keys {bad[:4]} are not {n}-bit strings :: {desc}"})
        return V, -1, 0
    Q = channel(P, n, pfp, pfn)
    Q = np.clip(Q, 0.0, 1.0)
    if floor:
        Q = np.maximum(Q, floor)
    support = int(np.sum(Q > 1e-15))
    if np.any(P < 1e-15):
        probes["zero_probability_strings_present"] = 1
    for k, c in counts.items():
        if Q[int(k, 2)] <= 1e-15 and c > 0:
            V.append({"clause": "C15.impossible-outcome", "site": site + ("|err" if (pfp or pfn) else ""), "msg": f"outcome '{k}' appeared {c} times but has probability 0 under the Born rule + readout channel :: {desc}"})
            break
    ncmp = 0
    if tot == shots and not V:
        worst = (0.0, None)
        for idx in range(2**n):
            q = float(Q[idx])
            k = counts.get(format(idx, f"0{n}b"), 0)
            if q <= max(1e-15, floor) and k == 0:
                continue
            ncmp += 1
            lp = log_two_sided(k, shots, min(1.0, q))
            if lp < worst[0]:
                worst = (lp, idx)
        if worst[1] is not None and worst[0] < LOG_ALPHA:
            idx = worst[1]
            sbits = format(idx, f"0{n}b")
            V.append({"clause": "C15.distribution", "site": site + ("|err" if (pfp or pfn) else ""), "msg": f"outcome '{sbits}' appeared {counts.get(sbits, 0)} times in {shots} shots but has probability {float(Q[idx]):.6g} (two-sided exact binomial log p = {worst[0]:.1f} < {LOG_ALPHA:.1f}) :: {desc}"})
    return V, ncmp, support


def backend_case(tape: Tape) -> dict:
    """BitStrings results of a backend run: the counts recorded at every requested time must follow the Born
    distribution of the state at that time (taken from a separate StateResult run of the same scenario) pushed through
    the config's readout-error channel - whatever other observables were evaluated on the shared state object before the
    bit strings were sampled, and whatever internal qubit order the run used."""
    from .. import mpsrun as M
    from .. import scenario as S
    from ..seams import World
    from ._cal import sv_run_fn

    be = tape.choice(["mps", "mps-reorder", "sv", "sv-lindblad"], "backend")
    n = tape.int(2, 4 if be == "sv-lindblad" else 5, "n")
    # irregular gaps: the distribution must not be symmetric under reversing the register
    zig = round(tape.float(0.0, 5.0, "zigzag"), 2)
    xs = [0.0]
    for i in range(1, n):
        xs.append(round(xs[-1] + tape.float(6.5, 10.0, f"gap{i}"), 2))
    atoms = [[f"q{i}", xs[i], (i % 2) * zig] for i in range(n)]
    T = tape.int(40, 160, "T")
    dt = float(tape.choice([5, 10, 20], "dt"))
    scn = {"atoms": atoms, "xy": False, "modulation": False, "has_local": False, "local_init": None, "dmm": None, "slm": None,
           "ops": [{"op": "pulse", "ch": "g", "dur": T, "amp": {"k": "const", "v": round(tape.float(4.0, 10.0, "amp"), 3)}, "det": {"k": "ramp", "a": round(tape.float(-6.0, 0.0, "d0"), 3), "b": round(tape.float(0.0, 8.0, "d1"), 3)}, "phase": 0.0}]}
    times = sorted({1.0} | ({0.5} if tape.bool(0.5, "mid_time") else set()))
    shots = tape.choice([50, 500, 2000, 5000], "shots")
    err_class = tape.weighted(["none", "small", "any", "fn_only", "fp_only"], [0.4, 0.2, 0.15, 0.125, 0.125], "err_class")
    pfp = pfn = 0.0
    if err_class == "small":
        pfp, pfn = round(tape.float(0.0, 0.1, "pfp"), 3), round(tape.float(0.0, 0.1, "pfn"), 3)
    elif err_class == "any":
        pfp, pfn = round(tape.float(0.0, 1.0, "pfp"), 3), round(tape.float(0.0, 1.0, "pfn"), 3)
    elif err_class == "fn_only":
        pfn = round(tape.float(0.05, 0.6, "pfn"), 3)
    elif err_class == "fp_only":
        pfp = round(tape.float(0.05, 0.6, "pfp"), 3)
    if pfp or pfn:
        shots = min(shots, 2000)
    lind: dict[str, Any] = {}
    if be == "sv-lindblad":
        lind = {tape.choice(["dephasing_rate", "relaxation_rate", "depolarizing_rate"], "lind"): round(tape.float(0.5, 4.0, "rate"), 3)}
    noise = dict(lind)
    if pfp or pfn:
        noise.update(p_false_pos=pfp, p_false_neg=pfn)
    others = [k for k in ("correlation_matrix", "occupation", "energy", "energy_variance") if tape.bool(0.5, f"with_{k}")]
    obs = [{"kind": k, "times": times} for k in others] + [{"kind": "bitstrings", "times": times, "shots": shots}]
    if tape.bool(0.3, "one_state_given"):
        obs[-1]["one_state"] = "r"
    if be == "mps" and n >= 3 and tape.bool(0.4, "with_entropy"):
        # observables that move the orthogonality centre of the shared state object (and have to put it back)
        obs.append({"kind": "entanglement_entropy", "times": times, "site": tape.int(1, n - 2, "entropy_site")})
    order = tape.permutation(len(obs), "obs_order")
    obs = [obs[i] for i in order]
    backend = "sv" if be.startswith("sv") else "mps"
    cfg: dict[str, Any] = {"backend": backend, "dt": dt, "observables": obs, "default_times": None, "precision": 1e-8, "max_bond_dim": 1024, "optimize": be == "mps-reorder", "solver": "tdvp", "noise": noise or None, "n_trajectories": 1 if (pfp or pfn) else None}
    ref_cfg = {**cfg, "observables": [{"kind": "state", "times": times}], "optimize": False, "noise": lind or None, "n_trajectories": None}
    perm = tape.permutation(n, "perm") if be == "mps-reorder" else list(range(n))
    seeds = (tape.seed32("seed_py"), tape.seed32("seed_np"), tape.seed32("seed_torch"))
    desc = {"state": f"backend-{be}", "n": n, "d": 2, "shots": shots, "p_false_pos": pfp, "p_false_neg": pfn, "atoms": atoms, "drive": scn["ops"][0], "dt": dt, "times": times, "observable_order": [o["kind"] for o in obs], "internal_order": perm, "lindblad": lind}
    V: list[dict] = []
    probes: dict[str, int] = {"backend_run_bitstrings": 1}
    ncmp_total = 0
    support = 0
    site = f"backend-{be}"
    world = World("c15")
    try:
        seq = S.build_sequence(scn)
        world.clock.policy = lambda k: 0.002
        mk = (lambda c: sv_run_fn(seq, scn, c)) if backend == "sv" else (lambda c: M.mps_run_fn(seq, scn, c, autosave_dt=None))
        chooser = (lambda matrix, real: perm) if be == "mps-reorder" else None
        ref = M.run_incarnation(world, mk(ref_cfg), seeds=seeds)
        out = M.run_incarnation(world, mk(cfg), seeds=seeds, perm_chooser=chooser)
        if ref.error is not None:
            return {"violations": [], "case": (f"{site}|reference-raised", False), "probes": probes, "desc": {**desc, "skipped": f"reference-raised:{ref.error_site}"}, "ncmp": 0}
        if out.error is not None:
            V.append({"clause": "C15.sample-raised", "site": f"{site}|{out.error_site}", "msg": f"the run recording BitStrings raised {out.error!r} although the same scenario runs with StateResult :: {desc}"})
            return {"violations": V, "case": (f"{site}|raised", False), "probes": probes, "desc": desc, "ncmp": 0}
        states = dict((t, v) for t, v in ref.results["tags"].get("state", []))
        recs = out.results["tags"].get("bitstrings", [])
        if [t for t, _ in recs] != times:
            V.append({"clause": "C15.bitstrings-times", "site": site, "msg": f"bitstrings recorded at {[t for t, _ in recs]}, requested {times} :: {desc}"})
        for t, v in recs:
            st = states.get(t, {}).get("__state__") if isinstance(states.get(t), dict) else None
            if st is None or not isinstance(v, dict) or "__counter__" not in v:
                continue
            a = np.asarray(st)
            P = np.real(np.diagonal(a)).copy() if a.ndim == 2 else np.abs(a.reshape(-1)) ** 2
            if P.size != 2**n or not np.isfinite(P).all() or P.sum() <= 0:
                continue
            P = np.clip(P, 0.0, None)
            P = P / P.sum()
            d2 = {**desc, "time": t}
            jv, ncmp, sup = judge_counts(v["__counter__"], P, n, shots, pfp, pfn, site, d2, probes, floor=1e-9)
            for x in jv:
                x["msg"] = x["msg"]
            V.extend(jv)
            desc["counts_head"] = d2.get("counts_head")
            ncmp_total += max(0, ncmp)
            support = max(support, sup)
        if be == "mps-reorder" and perm != list(range(n)):
            probes["backend_bitstrings_under_non_identity_order"] = 1
        if obs[0]["kind"] != "bitstrings":
            probes["backend_bitstrings_after_other_observables"] = 1
        if pfp or pfn:
            probes["backend_readout_errors_from_config"] = 1
        if be == "sv-lindblad":
            probes["backend_density_matrix_run"] = 1
        if any(o.get("one_state") for o in obs):
            probes["one_state_named_explicitly"] = 1
    finally:
        world.close()
    seen: set = set()
    V = [v for v in V if not ((v["clause"], v["site"]) in seen or seen.add((v["clause"], v["site"])))]
    return {"violations": V, "case": (f"{site}|N{n}|{err_class}|{','.join(o['kind'][:4] for o in obs)}", support >= 2), "probes": probes, "desc": desc, "ncmp": ncmp_total}


def one_case(tape: Tape) -> dict:
    g = torch.Generator()
    g.manual_seed(tape.seed32("state_seed"))
    S = make_state(tape, g)
    n, kind = S["n"], S["kind"]
    shots = tape.choice([1, 2, 31, 32, 33, 100, 257, 1000, 5000, 20000, tape.int(1, 20000, "shots_any")], "shots")
    if n >= 7 and kind == "mps2":
        shots = min(shots, 5000)
    err_class = tape.weighted(["none", "small", "any", "fp1", "fn1", "both1", "fn_only", "fp_only"], [0.3, 0.2, 0.2, 0.06, 0.06, 0.06, 0.06, 0.06], "err_class")
    pfp = pfn = 0.0
    if err_class == "small":
        pfp, pfn = round(tape.float(0.0, 0.1, "pfp"), 3), round(tape.float(0.0, 0.1, "pfn"), 3)
    elif err_class == "any":
        pfp, pfn = round(tape.float(0.0, 1.0, "pfp"), 3), round(tape.float(0.0, 1.0, "pfn"), 3)
    elif err_class == "fp1":
        pfp, pfn = 1.0, round(tape.float(0.0, 0.5, "pfn"), 3) if tape.bool(0.5, "mix") else 0.0
    elif err_class == "fn1":
        pfn, pfp = 1.0, round(tape.float(0.0, 0.5, "pfp"), 3) if tape.bool(0.5, "mix") else 0.0
    elif err_class == "both1":
        pfp = pfn = 1.0
    elif err_class == "fn_only":
        pfn = round(tape.float(0.05, 0.6, "pfn"), 3)
    elif err_class == "fp_only":
        pfp = round(tape.float(0.05, 0.6, "pfp"), 3)
    if S["d"] == 3:
        pfp = 0.0  # NotImplementedError is the documented behaviour for qutrits
    if shots > 2000 and (pfp > 0 or pfn > 0):
        shots = min(shots, 5000)  # per-bit python loop in the SUT: keep a case below a second
    torch.manual_seed(tape.seed32("torch_seed"))
    random.seed(tape.seed32("py_seed"))
    desc = {"state": kind, "n": n, "d": S["d"], "shots": shots, "p_false_pos": pfp, "p_false_neg": pfn, "bits": S.get("bits")}
    V: list[dict] = []
    probes: dict[str, int] = {}
    # the excited state may be named explicitly ("1 means the excited state" either way); states built on Pulser's
    # eigenstate labels (r, g[, x]) accept "r"
    kw_one: dict[str, Any] = {}
    if tape.bool(0.3, "one_state_given"):
        kw_one["one_state"] = "r"
        desc["one_state"] = "r"
        probes["one_state_named_explicitly"] = 1
    try:
        counts = S["state"].sample(num_shots=shots, p_false_pos=pfp, p_false_neg=pfn, **kw_one)
    except Exception as e:
        import traceback

        tb = traceback.extract_tb(e.__traceback__)
        V.append({"clause": "C15.sample-raised", "site": f"{type(e).__name__}@{tb[-1].name if tb else '?'}", "msg": f"sample() raised {e!r} :: {desc}"})
        return {"violations": V, "case": (f"{kind}|raised", False), "probes": probes, "desc": desc, "ncmp": 0}
    jv, ncmp, support = judge_counts(counts, S["P"], n, shots, pfp, pfn, kind.split("-")[0], desc, probes)
    V.extend(jv)
    if ncmp < 0:
        return {"violations": V, "case": (f"{kind}|malformed", False), "probes": probes, "desc": desc, "ncmp": 0}
    pk = kind.split("-")[0]
    probes[{"mps2": "mps_qubit", "mps3": "mps_qutrit", "sv": "state_vector", "dm": "density_matrix", "product": "product_state_position"}[pk]] = 1
    if pfp or pfn:
        probes["readout_errors"] = 1
    if pfp == 1.0:
        probes["pfp_equals_1"] = 1
    if pfn == 1.0:
        probes["pfn_equals_1"] = 1
    if shots % 32:
        probes["shots_not_multiple_of_32"] = 1
    if shots >= 5000:
        probes["shots_ge_5000"] = 1
    if shots == 1:
        probes["single_shot"] = 1
    sb = "1" if shots == 1 else ("<100" if shots < 100 else ("<5000" if shots < 5000 else ">=5000"))
    return {"violations": V, "case": (f"{kind}|N{n}|d{S['d']}|{sb}|{err_class}", support >= 2), "probes": probes, "desc": desc, "ncmp": ncmp}


def run_one(tape: Tape, tier: str, opts: dict) -> dict:
    if opts.get("single"):
        d = backend_case(tape) if opts["single"] == "backend" else one_case(tape)
        return {"violations": d["violations"], "cases": [d["case"]], "evals": 1, "probes": d["probes"], "digest": hashlib.sha256(repr(d["desc"]).encode()).hexdigest(), "scenario": d["desc"], "ncmp": d["ncmp"]}
    n = 12 if tier == "quick" else 25
    viol: list[dict] = []
    cases = []
    probes: dict[str, int] = {}
    h = hashlib.sha256()
    sample = None
    ncmp = 0
    shots = 0
    for i in range(n):
        sub = Tape(seed=tape.int(0, 2**62, "sub"))
        is_backend = i % 4 == 3  # every fourth case goes through a backend run (BitStrings results)
        d = backend_case(sub) if is_backend else one_case(sub)
        h.update(repr(d["desc"]).encode())
        cases.append(d["case"])
        ncmp += d["ncmp"]
        shots += d["desc"].get("shots", 0)
        for k, c in d["probes"].items():
            probes[k] = probes.get(k, 0) + c
        for v in d["violations"]:
            v["tape_override"] = sub.record
            v["opts_override"] = {"single": "backend" if is_backend else "1"}
            viol.append(v)
        if sample is None and d["case"][1]:
            sample = d["desc"]
    return {"violations": viol, "cases": cases, "evals": n, "probes": probes, "digest": h.hexdigest(), "sample": sample, "ncmp": ncmp, "faults": {"seeded_rng_draws_shots": shots}}


def finish(results: list[dict], tier: str, opts: dict) -> tuple[list[dict], dict]:
    total = sum(int(r.get("ncmp", 0)) for r in results)
    notes = {"binomial_comparisons": total, "per_comparison_log_alpha": LOG_ALPHA, "family_wise_alpha": ALPHA_FAMILY}
    if total > MAX_COMPARISONS:
        raise HarnessError(f"{total} comparisons exceed the {MAX_COMPARISONS:g} the per-comparison level was derived for")
    return [], notes
