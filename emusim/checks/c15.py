"""C15 - sampled bit strings follow the state's measurement distribution.

The only nondeterminism here is the RNG, and the evidence says so: no clock, no fault.  It
is a simulation target because the property *is* about that nondeterminism: the RNG seam
(torch + random seeded from the tape) makes every draw replayable, per-draw invariants are
checked on every seed, and the distributional claim is decided with exact binomial tests
against an independent Born-rule model at a fixed family-wise error rate."""
from __future__ import annotations

import hashlib
import math
import random
from typing import Any

import numpy as np
import torch

from ..seams import HarnessError
from ..tape import Tape

ID = "C15"
LEVEL = "exploration"
ALPHA_FAMILY = 1e-9
MAX_COMPARISONS = 2e7  # per invocation; the per-comparison level is ALPHA_FAMILY / MAX_COMPARISONS
LOG_ALPHA = math.log(ALPHA_FAMILY / MAX_COMPARISONS)
RULE = (
    "One case = one sample() call on a random state: MPS with qubits or qutrits (bond <= 8, any orthogonality centre, not "
    "normalised), state vector, density matrix; 2-8 atoms; 1..20000 shots; false-positive / false-negative rates in [0,1] incl. "
    "0 and 1; plus product states with one or more chosen excited atoms (deterministic outcomes). Non-trivial iff >= 2 outcomes "
    "have non-zero probability; distinct by (state kind, N, physical dimension, shots bucket, error-rate class)."
)
COMPONENTS = {"real": ["MPS.sample", "StateVector.sample", "DensityMatrix.sample", "emu_base.utils.apply_measurement_errors/readout_with_error", "index_to_bitstring"], "stubbed": ["torch / random RNG (seeded from the tape)"]}
PROBES = ["mps_qubit", "mps_qutrit", "state_vector", "density_matrix", "readout_errors", "pfp_equals_1", "pfn_equals_1", "shots_not_multiple_of_32", "shots_ge_5000", "product_state_position", "zero_probability_strings_present", "single_shot"]
ASSUMPTIONS = [
    f"statistical acceptance: exact two-sided binomial test per output string against the Born model pushed through the independent bit-flip channel, per-comparison level {ALPHA_FAMILY}/{MAX_COMPARISONS:g}, i.e. family-wise false-alarm probability <= {ALPHA_FAMILY} per invocation for any VERIF_SEED",
    "qutrit MPS: the leakage level reads as 0; false positives are not implemented there (NotImplementedError is the documented behaviour) and are not generated",
]


def plan(tier: str) -> dict:
    if tier == "quick":
        return {"runs": 640, "wall_s": 170, "task_timeout": 400}
    return {"runs": 4000, "wall_s": 1700, "task_timeout": 900}


def _rand_complex(g: torch.Generator, *shape: int) -> torch.Tensor:
    return torch.complex(torch.randn(*shape, generator=g, dtype=torch.float64), torch.randn(*shape, generator=g, dtype=torch.float64))


def channel(P: np.ndarray, n: int, pfp: float, pfn: float) -> np.ndarray:
    """Push a distribution over n-bit strings (index: atom 0 = most significant bit) through
    independent per-bit flips."""
    M = np.array([[1.0 - pfp, pfn], [pfp, 1.0 - pfn]])  # M[out, true]
    T = P.reshape((2,) * n)
    for ax in range(n):
        T = np.moveaxis(np.tensordot(M, T, axes=([1], [ax])), 0, ax)
    return T.reshape(-1)


def log_two_sided(k: int, n: int, p: float) -> float:
    from scipy.stats import binom

    if p <= 0.0:
        return 0.0 if k == 0 else -math.inf
    if p >= 1.0:
        return 0.0 if k == n else -math.inf
    lo = binom.logcdf(k, n, p)
    hi = binom.logsf(k - 1, n, p)
    return min(0.0, math.log(2.0) + min(lo, hi))


def make_state(tape: Tape, g: torch.Generator) -> dict:
    kind = tape.weighted(["mps2", "mps3", "sv", "dm", "product"], [0.3, 0.15, 0.2, 0.15, 0.2], "state_kind")
    n = tape.int(2, 8 if kind in ("mps2", "sv", "product") else (6 if kind == "mps3" else 5), "n")
    from emu_mps import MPS
    from emu_sv import DensityMatrix, StateVector

    if kind in ("mps2", "mps3"):
        d = 2 if kind == "mps2" else 3
        chi = tape.int(1, 8, "chi")
        dims = [1] + [min(chi, d ** min(i, n - i)) for i in range(1, n)] + [1]
        factors = [_rand_complex(g, dims[i], d, dims[i + 1]) for i in range(n)]
        sparsify = tape.bool(0.3, "sparsify")
        if sparsify:
            for f in factors:
                f[torch.rand(f.shape, generator=g) < 0.35] = 0.0
            if any(float(f.abs().max()) == 0.0 for f in factors):
                factors = [_rand_complex(g, dims[i], d, dims[i + 1]) for i in range(n)]
        acc = factors[0].reshape(-1, factors[0].shape[-1])
        for f in factors[1:]:
            acc = (acc @ f.reshape(f.shape[0], -1)).reshape(-1, f.shape[-1])
        amp = acc.reshape(-1).numpy()
        if float(np.sum(np.abs(amp) ** 2)) < 1e-12:
            factors = [_rand_complex(g, dims[i], d, dims[i + 1]) for i in range(n)]
            acc = factors[0].reshape(-1, factors[0].shape[-1])
            for f in factors[1:]:
                acc = (acc @ f.reshape(f.shape[0], -1)).reshape(-1, f.shape[-1])
            amp = acc.reshape(-1).numpy()
        pd_ = np.abs(amp) ** 2
        pd_ = pd_ / pd_.sum()
        # d-ary index (site 0 most significant) -> bit string
        P = np.zeros(2**n)
        for idx, pr in enumerate(pd_):
            if pr == 0.0:
                continue
            b, x = 0, idx
            digits = []
            for _ in range(n):
                digits.append(x % d)
                x //= d
            for dg in reversed(digits):
                b = (b << 1) | (1 if dg == 1 else 0)
            P[b] += pr
        st = MPS([f.clone() for f in factors], eigenstates=("r", "g") if d == 2 else ("r", "g", "x"), num_gpus_to_use=0)
        if tape.bool(0.5, "move_centre"):
            st.orthogonalize(tape.int(0, n - 1, "centre"))
        return {"kind": kind, "n": n, "d": d, "state": st, "P": P}
    if kind == "sv":
        v = _rand_complex(g, 2**n)
        if tape.bool(0.3, "sparsify"):
            v[torch.rand(v.shape, generator=g) < 0.5] = 0.0
            if float(v.abs().max()) == 0.0:
                v[0] = 1.0
        v = v / v.norm()
        P = (v.abs() ** 2).numpy()
        return {"kind": kind, "n": n, "d": 2, "state": StateVector(v.clone(), gpu=False), "P": P / P.sum()}
    if kind == "dm":
        r = tape.int(1, 4, "rank")
        A = _rand_complex(g, 2**n, r)
        rho = A @ A.mH
        rho = rho / rho.diagonal().sum().real
        P = rho.diagonal().real.numpy().copy()
        return {"kind": kind, "n": n, "d": 2, "state": DensityMatrix(rho.clone(), gpu=False), "P": P / P.sum()}
    # product state with chosen excited atoms, built through the public constructors
    which = tape.choice(["mps", "sv", "dm"], "product_impl")
    if which != "mps":
        n = min(n, 6)
    bits = [tape.bool(0.35, f"x{i}") for i in range(n)]
    if not any(bits):
        bits[tape.int(0, n - 1, "one")] = True
    s = "".join("r" if b else "g" for b in bits)
    if which == "mps":
        st = MPS.from_state_amplitudes(eigenstates=("r", "g"), amplitudes={s: 1.0})
    elif which == "sv":
        st = StateVector.from_state_amplitudes(eigenstates=("r", "g"), amplitudes={s: 1.0})
    else:
        st = DensityMatrix.from_state_vector(StateVector.from_state_amplitudes(eigenstates=("r", "g"), amplitudes={s: 1.0}))
    P = np.zeros(2**n)
    P[int("".join("1" if b else "0" for b in bits), 2)] = 1.0
    return {"kind": f"product-{which}", "n": n, "d": 2, "state": st, "P": P, "bits": "".join("1" if b else "0" for b in bits)}


def one_case(tape: Tape) -> dict:
    g = torch.Generator()
    g.manual_seed(tape.seed32("state_seed"))
    S = make_state(tape, g)
    n, kind = S["n"], S["kind"]
    shots = tape.choice([1, 2, 31, 32, 33, 100, 257, 1000, 5000, 20000, tape.int(1, 20000, "shots_any")], "shots")
    if n >= 7 and kind == "mps2":
        shots = min(shots, 5000)
    err_class = tape.weighted(["none", "small", "any", "fp1", "fn1", "both1", "fn_only", "fp_only"], [0.3, 0.2, 0.2, 0.06, 0.06, 0.06, 0.06, 0.06], "err_class")
    pfp = pfn = 0.0
    if err_class == "small":
        pfp, pfn = round(tape.float(0.0, 0.1, "pfp"), 3), round(tape.float(0.0, 0.1, "pfn"), 3)
    elif err_class == "any":
        pfp, pfn = round(tape.float(0.0, 1.0, "pfp"), 3), round(tape.float(0.0, 1.0, "pfn"), 3)
    elif err_class == "fp1":
        pfp, pfn = 1.0, round(tape.float(0.0, 0.5, "pfn"), 3) if tape.bool(0.5, "mix") else 0.0
    elif err_class == "fn1":
        pfn, pfp = 1.0, round(tape.float(0.0, 0.5, "pfp"), 3) if tape.bool(0.5, "mix") else 0.0
    elif err_class == "both1":
        pfp = pfn = 1.0
    elif err_class == "fn_only":
        pfn = round(tape.float(0.05, 0.6, "pfn"), 3)
    elif err_class == "fp_only":
        pfp = round(tape.float(0.05, 0.6, "pfp"), 3)
    if S["d"] == 3:
        pfp = 0.0  # NotImplementedError is the documented behaviour for qutrits
    if shots > 2000 and (pfp > 0 or pfn > 0):
        shots = min(shots, 5000)  # per-bit python loop in the SUT: keep a case below a second
    torch.manual_seed(tape.seed32("torch_seed"))
    random.seed(tape.seed32("py_seed"))
    desc = {"state": kind, "n": n, "d": S["d"], "shots": shots, "p_false_pos": pfp, "p_false_neg": pfn, "bits": S.get("bits")}
    V: list[dict] = []
    probes: dict[str, int] = {}
    try:
        counts = S["state"].sample(num_shots=shots, p_false_pos=pfp, p_false_neg=pfn)
    except Exception as e:
        import traceback

        tb = traceback.extract_tb(e.__traceback__)
        V.append({"clause": "C15.sample-raised", "site": f"{type(e).__name__}@{tb[-1].name if tb else '?'}", "msg": f"sample() raised {e!r} :: {desc}"})
        return {"violations": V, "case": (f"{kind}|raised", False), "probes": probes, "desc": desc, "ncmp": 0}
    counts = {str(k): int(v) for k, v in counts.items()}
    desc["counts_head"] = dict(sorted(counts.items(), key=lambda kv: -kv[1])[:6])
    # ---- per-draw invariants
    tot = sum(counts.values())
    if tot != shots:
        V.append({"clause": "C15.total-count", "site": kind.split("-")[0], "msg": f"{tot} samples returned for num_shots={shots} :: {desc}"})
    bad = [k for k in counts if len(k) != n or set(k) - {"0", "1"}]
    if bad:
        V.append({"clause": "C15.malformed-string", "site": kind.split("-")[0], "msg": f"keys {bad[:4]} are not {n}-bit strings :: {desc}"})
        return {"violations": V, "case": (f"{kind}|malformed", False), "probes": probes, "desc": desc, "ncmp": 0}
    Q = channel(S["P"], n, pfp, pfn)
    Q = np.clip(Q, 0.0, 1.0)
    support = int(np.sum(Q > 1e-15))
    if np.any(S["P"] < 1e-15):
        probes["zero_probability_strings_present"] = 1
    for k, c in counts.items():
        if Q[int(k, 2)] <= 1e-15 and c > 0:
            V.append({"clause": "C15.impossible-outcome", "site": kind.split("-")[0] + ("|err" if (pfp or pfn) else ""), "msg": f"outcome '{k}' appeared {c} times but has probability 0 under the Born rule + readout channel :: {desc}"})
            break
    # ---- distribution: exact binomial test per string
    ncmp = 0
    if tot == shots and not V:
        worst = (0.0, None)
        for idx in range(2**n):
            q = float(Q[idx])
            k = counts.get(format(idx, f"0{n}b"), 0)
            if q <= 1e-15 and k == 0:
                continue
            ncmp += 1
            lp = log_two_sided(k, shots, min(1.0, q))
            if lp < worst[0]:
                worst = (lp, idx)
        if worst[1] is not None and worst[0] < LOG_ALPHA:
            idx = worst[1]
            s = format(idx, f"0{n}b")
            V.append({"clause": "C15.distribution", "site": kind.split("-")[0] + ("|err" if (pfp or pfn) else ""), "msg": f"outcome '{s}' appeared {counts.get(s, 0)} times in {shots} shots but has probability {float(Q[idx]):.6g} (two-sided exact binomial log p = {worst[0]:.1f} < {LOG_ALPHA:.1f}) :: {desc}"})
    pk = kind.split("-")[0]
    probes[{"mps2": "mps_qubit", "mps3": "mps_qutrit", "sv": "state_vector", "dm": "density_matrix", "product": "product_state_position"}[pk]] = 1
    if pfp or pfn:
        probes["readout_errors"] = 1
    if pfp == 1.0:
        probes["pfp_equals_1"] = 1
    if pfn == 1.0:
        probes["pfn_equals_1"] = 1
    if shots % 32:
        probes["shots_not_multiple_of_32"] = 1
    if shots >= 5000:
        probes["shots_ge_5000"] = 1
    if shots == 1:
        probes["single_shot"] = 1
    sb = "1" if shots == 1 else ("<100" if shots < 100 else ("<5000" if shots < 5000 else ">=5000"))
    return {"violations": V, "case": (f"{kind}|N{n}|d{S['d']}|{sb}|{err_class}", support >= 2), "probes": probes, "desc": desc, "ncmp": ncmp}


def run_one(tape: Tape, tier: str, opts: dict) -> dict:
    if opts.get("single"):
        d = one_case(tape)
        return {"violations": d["violations"], "cases": [d["case"]], "evals": 1, "probes": d["probes"], "digest": hashlib.sha256(repr(d["desc"]).encode()).hexdigest(), "scenario": d["desc"], "ncmp": d["ncmp"]}
    n = 12 if tier == "quick" else 25
    viol: list[dict] = []
    cases = []
    probes: dict[str, int] = {}
    h = hashlib.sha256()
    sample = None
    ncmp = 0
    shots = 0
    for i in range(n):
        sub = Tape(seed=tape.int(0, 2**62, "sub"))
        d = one_case(sub)
        h.update(repr(d["desc"]).encode())
        cases.append(d["case"])
        ncmp += d["ncmp"]
        shots += d["desc"].get("shots", 0)
        for k, c in d["probes"].items():
            probes[k] = probes.get(k, 0) + c
        for v in d["violations"]:
            v["tape_override"] = sub.record
            v["opts_override"] = {"single": "1"}
            viol.append(v)
        if sample is None and d["case"][1]:
            sample = d["desc"]
    return {"violations": viol, "cases": cases, "evals": n, "probes": probes, "digest": h.hexdigest(), "sample": sample, "ncmp": ncmp, "faults": {"seeded_rng_draws_shots": shots}}


def finish(results: list[dict], tier: str, opts: dict) -> tuple[list[dict], dict]:
    total = sum(int(r.get("ncmp", 0)) for r in results)
    notes = {"binomial_comparisons": total, "per_comparison_log_alpha": LOG_ALPHA, "family_wise_alpha": ALPHA_FAMILY}
    if total > MAX_COMPARISONS:
        raise HarnessError(f"{total} comparisons exceed the {MAX_COMPARISONS:g} the per-comparison level was derived for")
    return [], notes
