"""Shared workload for C14 (observables recorded exactly at their requested times) and
C21 (the executed step calendar covers the sequence and every evaluation time): seeded
scenarios on both backends, TDVP / DMRG / quantum-jump / Lindblad, with and without
modulation, optionally interrupted by crash + resume (emu-mps)."""
from __future__ import annotations

import math
from typing import Any

from .. import mpsrun as M
from .. import results as R
from .. import scenario as S
from ..models import calendar as CAL
from ..seams import World, wrap_method
from ..tape import Tape
from . import _crash as C

BACKENDS = ["sv", "mps-tdvp", "mps-dmrg", "mps-noisy", "sv-lindblad"]


def gen_case(tape: Tape, tier: str, clock_revealing: bool = False, force_backend: str | None = None) -> dict:
    be = force_backend or tape.weighted(BACKENDS, [0.3, 0.3, 0.12, 0.16, 0.12], "backend")
    if clock_revealing and be in ("mps-dmrg", "mps-noisy", "sv-lindblad"):
        be = "mps-tdvp" if be.startswith("mps") else "sv"  # the oracle needs unitary time evolution
    dur_class = tape.weighted(["normal", "tiny", "long"], [0.8, 0.1, 0.1], "dur_class")
    # microsecond-long runs of the density-matrix solver with the energy observables: rounding accumulated over many
    # coarse steps (a not exactly Hermitian rho) must not stop the run in the middle of its calendar
    long_lindblad = be == "sv-lindblad" and not clock_revealing and tape.bool(0.35, "long_lindblad")
    if long_lindblad:
        dur_class = "long"
    if clock_revealing:
        n = tape.int(2, 4, "n_atoms")
        spacing = round(tape.float(7.0, 12.0, "spacing"), 2)
        atoms = [[f"q{i}", i * spacing, 0.0] for i in range(n)]
        T = {"normal": tape.int(16, 200, "T"), "tiny": tape.int(2, 15, "T"), "long": tape.int(1000, 4000, "T")}[dur_class]
        # Omega * T < pi so that t -> sin^2(Omega t / 2) is injective on [0, T]
        omega = round(tape.float(0.3, 0.95, "area_frac") * math.pi / (T * 1e-3), 6)
        scn = {"atoms": atoms, "xy": False, "modulation": False, "has_local": False, "local_init": None, "dmm": None, "slm": None,
               "ops": [{"op": "pulse", "ch": "g", "dur": int(T), "amp": {"k": "const", "v": omega}, "det": {"k": "const", "v": 0.0}, "phase": round(tape.float(0, 6.28, "phase"), 3)}]}
        extra = {"omega": omega}
    else:
        prof: dict[str, Any] = {"n_atoms": (2, 4), "p_modulation": 0.3, "p_slm": 0.15, "p_xy": 0.08}
        if dur_class == "tiny":
            prof.update(dur=(1, 12), n_pulses=(1, 1), p_local=0.0, p_dmm=0.0, p_slm=0.0, p_modulation=0.0)
        elif dur_class == "long":
            prof.update(dur=(1000, 10000), n_pulses=(1, 1), p_local=0.1, p_dmm=0.0, p_slm=0.0, amp_max=1.0, det_max=1.0)
            if long_lindblad:
                # strongly interacting plaquette heated by the noise for several microseconds: <H^2> becomes large
                prof.update(dur=(6000, 10000), n_atoms=(4, 4), layouts=["grid", "ring"], p_local=0.0, p_modulation=0.0)
        scn = S.gen_scenario(tape, prof)
        extra = {}
    seq = S.build_sequence(scn)
    T = float(seq.get_duration(include_fall_time=bool(scn.get("modulation"))))
    # dt: from 0.1 ns to above the duration, at most ~60 steps
    cands = [d for d in (0.1, 0.25, 0.5, 1.0, 2.5, 3.0, 7.0, 10.0, 25.0, 100.0, 333.0, 1000.0) if T / d <= (60 if tier == "quick" else 120)]
    max_steps = 60 if tier == "quick" else 120
    cands += [d for d in (0.3, 0.7, 1.1, 1.4, 2.3, 2.7) if T / d <= max_steps]
    cands += [T / k for k in (1, 2, 3, 7) if T / k >= 0.1] + [T + 5.0, T - 0.5 if T > 1 else T]
    dt = float(tape.choice(cands, "dt"))
    # a dt that divides the duration in real numbers but not in floating point: the last multiple of dt is then
    # 1 -+ 1 ulp in relative time (next to the explicit end point 1.0), or floor(T / dt) is one short
    ragged = [k for k in range(2, max_steps + 1) if T / k >= 0.1 and (math.floor(T / (T / k)) != k or math.floor(T / (T / k)) * (T / k) / T != 1.0)]
    if ragged and tape.bool(0.15, "dt_ragged"):
        dt = T / float(tape.choice(ragged, "dt_ragged_k"))
    kinds = ["occupation", "energy", "bitstrings", "correlation_matrix", "energy_variance", "energy_second_moment"]
    obs, dflt = S.gen_observables(tape, T, dt, kinds=kinds, always=(["occupation"] + (["bitstrings"] if tape.bool(0.5, "clock_bits") else [])) if clock_revealing else (["energy_second_moment", "energy_variance", "energy"] if long_lindblad else None), shots=(60, 300) if clock_revealing else (1, 30))
    cfg: dict[str, Any] = {"backend": "sv" if be.startswith("sv") else "mps", "dt": dt, "observables": obs, "default_times": dflt}
    if cfg["backend"] == "mps":
        cfg.update(precision=1e-8 if clock_revealing else tape.choice([1e-5, 1e-8], "precision"), max_bond_dim=1024, optimize=tape.bool(0.3, "optimize"), solver="dmrg" if be == "mps-dmrg" else "tdvp", autosave_dt=round(tape.float(10.5, 30.0, "autosave_dt"), 2))
    if be in ("mps-noisy", "sv-lindblad") and not clock_revealing:
        noise = C.gen_noise(tape, allow_leak=(be == "mps-noisy"))
        # keep jumps rare enough for the run to stay cheap
        tot = sum(v for k, v in noise.items() if k.endswith("_rate")) + sum(noise.get("eff_noise_rates", []))
        f = min(1.0, 2.0 / max(1e-9, tot * len(scn["atoms"]) * T * 1e-3))
        if long_lindblad:
            f = min(1.0, 2.0 / tot)  # the master-equation solver has no jumps to pay for: total rate up to 2 / us
        for k in list(noise):
            if k.endswith("_rate"):
                noise[k] = round(noise[k] * f, 6)
        if "eff_noise_rates" in noise:
            noise["eff_noise_rates"] = [round(r * f, 6) for r in noise["eff_noise_rates"]]
        cfg["noise"] = C.xy_compatible(noise) if scn.get("xy") else noise
    if clock_revealing:
        n = len(scn["atoms"])
        cfg["interaction_matrix"] = [[0.0] * n for _ in range(n)]
        cfg["krylov_tolerance"] = 1e-12
    n = len(scn["atoms"])
    pk = tape.choice(["identity", "reverse", "random"], "perm_kind") if cfg.get("optimize") else "identity"
    perm = list(range(n))
    if pk == "reverse":
        perm = perm[::-1]
    elif pk == "random":
        perm = tape.permutation(n, "perm")
    return {"scn": scn, "seq": seq, "T": T, "cfg": cfg, "backend": be, "solver": be, "perm_kind": pk, "perm": perm, "dur_class": dur_class, **extra}


def sv_run_fn(seq: Any, scn: dict, cfg: dict):
    def fn(inc: Any) -> Any:
        import emu_sv

        return emu_sv.SVBackend(seq, config=S.make_config(scn, cfg)).run()

    return fn


class Counters:
    def __init__(self) -> None:
        self.trajectories = 0
        self.mps_steps = 0
        self.sv_steps = 0

    def install(self, inc: Any) -> None:
        import emu_mps.mps_backend as mb
        import emu_mps.mps_backend_impl as mi
        import emu_sv.sv_backend as sb
        import emu_sv.sv_backend_impl as si

        def tr(*a: Any, **k: Any) -> None:
            self.trajectories += 1

        def ms(*a: Any, **k: Any) -> None:
            self.mps_steps += 1

        def ss(*a: Any, **k: Any) -> None:
            self.sv_steps += 1

        wrap_method(inc.rb, mb.MPSBackend, "_run_from_sequence_data", before=tr, required=False)
        wrap_method(inc.rb, sb.SVBackend, "_run_from_sequence_data", before=tr, required=False)
        wrap_method(inc.rb, mi.MPSBackendImpl, "timestep_complete", before=ms, required=False)
        wrap_method(inc.rb, si.SVBackendImpl, "step", before=ss, required=False)


def run_case(world: World, case: dict, seeds: tuple, autosave: bool = False, policy: Any = None, record: bool = False) -> tuple[M.Outcome, Counters]:
    cnt = Counters()
    cfg = case["cfg"]
    if cfg["backend"] == "sv":
        fn = sv_run_fn(case["seq"], case["scn"], cfg)
    else:
        fn = M.mps_run_fn(case["seq"], case["scn"], cfg) if autosave else M.mps_run_fn(case["seq"], case["scn"], cfg, autosave_dt=None)
    world.clock.policy = policy or (lambda n: 0.003)
    out = M.run_incarnation(world, fn, seeds=seeds, perm_chooser=C.perm_chooser(case) if cfg["backend"] == "mps" else None, record=record, setup=lambda inc, probe: cnt.install(inc), budget=None)
    return out, cnt


def numerical_refusal(out: M.Outcome) -> bool:
    """The Krylov exponentiation's explicit 'did not converge' error (a dt too coarse for the
    dynamics, typically one multi-microsecond step of the Lindblad solver) is the documented,
    honest way of refusing a step it cannot take accurately (property C07); it is not a statement
    about when observables are recorded or which calendar is followed."""
    e = out.error
    return isinstance(e, RecursionError) and "did not converge" in str(e)


def observable_time_violations(case: dict, canon: dict, clause_prefix: str) -> list[dict]:
    V = []
    req = CAL.requested_times(case["cfg"]["observables"], case["cfg"]["default_times"])
    for tag, times in req.items():
        if tag not in canon["tags"]:
            if times:
                V.append({"clause": f"{clause_prefix}.observable-missing", "site": tag, "msg": f"{tag} requested at {times} but absent from the results (tags: {sorted(canon['tags'])})"})
            continue
        rec = [x[0] for x in canon["tags"][tag]]
        m = match_times_clustered(rec, times)
        if m is not None:
            V.append({"clause": f"{clause_prefix}.observable-times", "site": m.split(":")[0], "msg": f"{tag}: {m}"})
    return V


def match_times_clustered(recorded: list[float], requested: list[float], tol: float = 1e-10) -> str | None:
    """recorded strictly increasing; every record within tol of the requested time nearest to
    it; requested times chained within tol form one due time (cluster) that must get between
    1 and len(cluster) records; every cluster gets at least one record."""
    slack = 1e-13
    rec = list(recorded)
    for a, b in zip(rec, rec[1:]):
        if not (b > a):
            return f"not-increasing: recorded times not strictly increasing: {rec}"
    req = sorted(requested)
    clusters: list[list[float]] = []
    for t in req:
        if clusters and t - clusters[-1][-1] <= tol + slack:
            clusters[-1].append(t)
        else:
            clusters.append([t])
    used = [0] * len(clusters)
    for r in rec:
        best, bd = None, None
        for i, c in enumerate(clusters):
            d = min(abs(r - x) for x in c)
            if bd is None or d < bd:
                best, bd = i, d
        if best is None or bd > tol + slack:
            return f"not-requested: recorded at time {r!r}, which was not requested (requested {req}, recorded {rec})"
        used[best] += 1
    for i, c in enumerate(clusters):
        if used[i] == 0:
            return f"missing: requested time {c[0]!r} has no record (requested {req}, recorded {rec})"
        if used[i] > len(c):
            return f"duplicate: {used[i]} records for requested time {c[0]!r} (requested {req}, recorded {rec})"
    return None


def describe(case: dict) -> dict:
    cfg = case["cfg"]
    return {
        "backend": case["backend"],
        "atoms": len(case["scn"]["atoms"]),
        "T": case["T"],
        "dt": cfg["dt"],
        "modulation": bool(case["scn"].get("modulation")),
        "observables": [{"kind": o["kind"], "times": (None if o["times"] is None else [float(t) for t in o["times"]])} for o in cfg["observables"]],
        "default_times": None if cfg["default_times"] is None else [float(t) for t in cfg["default_times"]],
        "noise": cfg.get("noise"),
        "ops": case["scn"]["ops"],
    }
