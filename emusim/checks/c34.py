"""C34 - multi-trajectory results aggregate all simulated trajectories.

The numpy RNG that Pulser's noise sampling uses is seeded from the tape, so which noise
trajectories exist and how they are grouped into `reps` is part of the explored schedule.
The history of one run() is recorded at the seam every trajectory goes through
(_run_from_sequence_data): a deep copy of its SequenceData taken *before* the call, the
RNG state at entry, and the per-trajectory Results it returned.  Oracles over that
history: exactly n_trajectories simulations; every MEAN-aggregated tag equals the
arithmetic mean of the recorded values, the bit-string counter equals the multiset union
and sums to n_trajectories x shots, time lists preserved; and each recorded trajectory,
re-simulated alone from the pre-call copy under the same RNG state, reproduces the
recorded result (no state leaks from one trajectory into the next)."""
from __future__ import annotations

import copy
from typing import Any

import numpy as np

from .. import mpsrun as M
from .. import results as R
from .. import scenario as S
from ..seams import World, rng_restore, rng_snapshot, wrap_method
from ..tape import Tape
from . import _crash as C

ID = "C34"
LEVEL = "exploration"
RULE = (
    "One case = one run() with n_trajectories in 1..50 (quick: <= 12) on emu-sv or emu-mps with shot-to-shot noise (SPAM incl. "
    "state-preparation errors, amplitude, detuning, register position) and/or trajectory-invariant Lindblad noise (Pulser then "
    "returns one trajectory with reps = n), BitStrings plus mean-aggregated observables. Non-trivial iff n_trajectories >= 2; "
    "distinct by (backend, noise kinds, n bucket, reps structure = number of distinct SequenceData objects vs n, observable set)."
)
COMPONENTS = {
    "real": ["pulser HamiltonianData noise-trajectory sampling", "PulserData.get_sequences (reps expansion)", "MPSBackend.run / SVBackend.run", "Results.aggregate", "both solvers' numerics"],
    "stubbed": ["numpy / random / torch RNG seeding", "clock", "uuid", "minimize_bandwidth (scheduler-chosen permutation)"],
}
PROBES = ["second_run_on_same_backend_object", "n_ge_2", "n_ge_10", "shot_to_shot_noise", "trajectory_invariant_noise", "reps_grouped", "dark_atoms_in_some_trajectory", "n_equals_1", "lindblad_plus_shot_to_shot", "isolation_rerun_done", "isolation_from_fresh_trajectory_list"]
ASSUMPTIONS = [
    "the re-simulation of a recorded trajectory uses the RNG state captured at its entry, so jumps, bit-string samples and readout flips are reproduced exactly",
    "aggregation semantics are Pulser's (mean / bag union); tags Pulser marks SKIP/SKIP_WARN (statistics, state, energy_variance) are not compared",
]


def plan(tier: str) -> dict:
    if tier == "quick":
        return {"runs": 800, "wall_s": 170, "task_timeout": 400}
    return {"runs": 5000, "wall_s": 1700, "task_timeout": 1200}


class _Skip(Exception):
    """The stronger isolation variant does not apply (e.g. the adapter API differs): fall back to the plain one."""


def gen_noise(tape: Tape, backend: str, n_atoms: int) -> tuple[dict, list[str]]:
    kinds = []
    nd: dict[str, Any] = {}
    pool = ["spam_meas", "spam_prep", "amplitude", "detuning", "register", "lindblad"]
    k = tape.int(1, 2, "n_noise")
    for i in tape.permutation(len(pool), "noise_pick")[:k]:
        kinds.append(pool[i])
    if "spam_prep" in kinds and n_atoms < 3 and backend != "sv":
        kinds = [x if x != "spam_prep" else "spam_meas" for x in kinds]  # emu-mps needs two well-prepared atoms
    for kd in kinds:
        if kd == "spam_meas":
            nd.update(p_false_pos=round(tape.float(0.01, 0.3, "pfp"), 2), p_false_neg=round(tape.float(0.01, 0.3, "pfn"), 2))
            side = tape.choice(["both", "both", "fp_only", "fn_only"], "readout_sides")  # one-sided readout errors too
            if side == "fp_only":
                nd["p_false_neg"] = 0.0
            elif side == "fn_only":
                nd["p_false_pos"] = 0.0
        elif kd == "spam_prep":
            nd.update(state_prep_error=round(tape.float(0.05, 0.35 if backend != "sv" else 0.6, "prep"), 2))
        elif kd == "amplitude":
            nd.update(amp_sigma=round(tape.float(0.01, 0.2, "amp_sigma"), 3))
        elif kd == "detuning":
            nd.update(detuning_sigma=round(tape.float(0.1, 2.0, "det_sigma"), 3))
        elif kd == "register":
            nd.update(temperature=round(tape.float(10.0, 80.0, "temp"), 1), trap_depth=150.0, trap_waist=1.0, detuning_map_spot_waist=10.0)
        else:
            r = round(tape.float(0.2, 3.0, "rate"), 3)
            nd.update({tape.choice(["dephasing_rate", "relaxation_rate", "depolarizing_rate"], "lind_kind"): r})
    return nd, sorted(set(kinds))


def run_one(tape: Tape, tier: str, opts: dict) -> dict:
    V: list[dict] = []
    probes: dict[str, int] = {}
    world = World("c34")
    world.uuid_seed = tape.int(1, 1000, "uuid_seed")
    try:
        backend = tape.choice(["sv", "mps"], "backend")
        prof = {"n_atoms": (2, 4), "n_pulses": (1, 2), "dur": (16, 70), "p_modulation": 0.1, "p_slm": 0.1}
        scn = S.gen_scenario(tape, prof)
        n_atoms = len(scn["atoms"])
        noise, kinds = gen_noise(tape, backend, n_atoms)
        nmax = 50 if (backend == "sv" or tier != "quick") else 12  # emu-sv trajectories are cheap: full range in every tier
        ntraj = tape.choice([1, 2, 3, 5, 8, nmax, tape.int(2, nmax, "n_any")], "n_trajectories")
        seq = S.build_sequence(scn)
        T = float(seq.get_duration(include_fall_time=bool(scn.get("modulation"))))
        dt = float(tape.choice([d for d in (5.0, 10.0, 25.0, T / 2) if T / d <= 12], "dt"))
        times = sorted({1.0} | ({0.5} if tape.bool(0.5, "t_half") else set()) | ({0.0} if tape.bool(0.3, "t_zero") else set()))
        obs = [{"kind": "bitstrings", "times": times, "shots": tape.int(1, 60, "shots")}]
        for k in ("occupation", "energy", "correlation_matrix", "energy_second_moment", "energy_variance"):
            if k == "occupation" or tape.bool(0.5, f"obs_{k}"):
                obs.append({"kind": k, "times": times})
        cfg: dict[str, Any] = {"backend": backend, "dt": dt, "observables": obs, "default_times": None, "noise": noise, "n_trajectories": ntraj}
        if backend == "mps":
            cfg.update(precision=1e-6, max_bond_dim=64, optimize=tape.bool(0.5, "optimize"), solver="tdvp")
        # a user-supplied interaction matrix is one tensor in the config, handed to every trajectory
        if not scn.get("slm") and not scn.get("xy") and tape.bool(0.2, "user_interaction_matrix"):
            um = [[0.0] * n_atoms for _ in range(n_atoms)]
            for i in range(n_atoms):
                for j in range(i + 1, n_atoms):
                    um[i][j] = um[j][i] = round(tape.float(2.0, 15.0, f"u{i}{j}"), 3)
            cfg["interaction_matrix"] = um
        # a user-supplied initial state is one object in the config, handed to every trajectory
        if "spam_prep" not in kinds and not scn.get("xy") and tape.bool(0.3, "user_initial_state"):
            bits = "".join("r" if tape.bool(0.5, f"ib{i}") else "g" for i in range(n_atoms))
            bits = bits if "r" in bits else "r" + bits[1:]
            if backend == "sv" and "lindblad" in kinds:
                other = "".join("g" if ch == "r" else "r" for ch in bits)
                w = round(tape.float(0.2, 0.8, "mix_w"), 2)
                cfg["initial_mixed"] = [[bits, w], [other, round(1.0 - w, 2)]]
            else:
                cfg["initial_bits"] = bits
        try:
            S.make_config(scn, cfg)
        except Exception as e:
            return {"violations": [], "cases": [], "evals": 1, "skipped": f"invalid-scenario:{type(e).__name__}", "digest": "invalid", "sim_ns": 0.0}
        seeds = (tape.seed32("seed_py"), tape.seed32("seed_np"), tape.seed32("seed_torch"))
        perm = tape.permutation(n_atoms, "perm") if cfg.get("optimize") else list(range(n_atoms))
        case = {"cfg": cfg, "perm_kind": "fixed", "perm": perm}
        desc = {"backend": backend, "atoms": scn["atoms"], "ops": scn["ops"], "dt": dt, "T": T, "noise": noise, "n_trajectories": ntraj, "initial_state": cfg.get("initial_mixed") or cfg.get("initial_bits"), "user_interaction_matrix": cfg.get("interaction_matrix"), "observables": [o["kind"] for o in obs], "times": times, "shots": obs[0]["shots"], "internal_order": perm if cfg.get("optimize") else None}
        history: list[dict] = []
        first: dict[int, tuple] = {}

        def setup(inc: Any, probe: Any) -> None:
            import emu_mps.mps_backend as mb
            import emu_sv.sv_backend as sb

            cls = mb.MPSBackend if backend == "mps" else sb.SVBackend

            def before(sequence_data: Any, config: Any, *a: Any, **k: Any) -> Any:
                # Pulser groups identical noise trajectories: their `reps` SequenceData objects share the same drive
                # tensors.  Every repetition is re-simulated from the copy taken when those tensors were FIRST seen,
                # so a run that leaks state into the shared data (and so into the next repetition) shows up.
                om = getattr(sequence_data, "omega", None)
                key = id(om)
                if key not in first:
                    first[key] = (om, copy.deepcopy(sequence_data))  # keeping `om` alive keeps its id unique
                return {"data": first[key][1], "data_id": key, "rng": rng_snapshot()}

            def after(tok: Any, ret: Any, *a: Any, **k: Any) -> None:
                tok["result"] = R.canon_results(ret)
                history.append(tok)

            wrap_method(inc.rb, cls, "_run_from_sequence_data", before=before, after=after)

        def fn(inc: Any) -> Any:
            import emu_mps
            import emu_sv

            B = emu_mps.MPSBackend if backend == "mps" else emu_sv.SVBackend
            fn.config = S.make_config(scn, cfg)  # type: ignore[attr-defined]
            backend_obj = B(seq, config=fn.config)  # type: ignore[attr-defined]
            if not twice:
                return backend_obj.run()
            # a multi-step history: run() twice on the SAME backend object under the same RNG state; the second call
            # must stand on its own (exactly n_trajectories simulations, same aggregate)
            rng0 = rng_snapshot()
            fn.first = R.canon_results(backend_obj.run())  # type: ignore[attr-defined]
            history.clear()
            first.clear()
            rng_restore(rng0)
            return backend_obj.run()

        twice = tape.bool(0.3, "run_twice_on_same_backend")
        world.clock.policy = lambda n: 0.003
        out = M.run_incarnation(world, fn, seeds=seeds, perm_chooser=C.perm_chooser(case) if backend == "mps" else None, setup=setup)
        evals = 1
        if out.error is not None:
            # e.g. emu-mps refuses registers with fewer than two well-prepared atoms (C25's subject): nothing to aggregate
            return {"violations": [], "cases": [], "evals": 1, "skipped": f"run-raised:{out.error_site}", "digest": world.log.digest(), "scenario": desc, "sim_ns": T}
        agg = out.results
        n_rec = len(history)
        if n_rec != ntraj:
            V.append({"clause": "C34.trajectory-count", "site": backend, "msg": f"{n_rec} trajectories were simulated for n_trajectories = {ntraj} :: {desc}"})
        distinct_data = len({h["data_id"] for h in history})
        if twice:
            probes["second_run_on_same_backend_object"] = 1
            d = R.compare(fn.first, agg, tol=1e-12)  # type: ignore[attr-defined]
            if d:
                V.append({"clause": "C34.second-run-differs", "site": backend, "msg": f"calling run() a second time on the same backend object (same RNG state) gives a different aggregate than the first call: {d[:3]} :: {desc}"})
        # ---- aggregation oracle
        method_by_tag = {}
        for o in fn.config.observables:  # type: ignore[attr-defined]
            method_by_tag[o.tag] = getattr(getattr(o, "default_aggregation_method", None), "name", "MEAN")
        if n_rec >= 1:
            per = [h["result"] for h in history]
            if tuple(agg["atom_order"]) != tuple(a[0] for a in scn["atoms"]):
                V.append({"clause": "C34.atom-order", "site": backend, "msg": f"aggregated atom_order {agg['atom_order']} is not the register order :: {desc}"})
            for tag, method in method_by_tag.items():
                if method in ("SKIP", "SKIP_WARN") and ntraj > 1:
                    continue
                if tag not in agg["tags"]:
                    V.append({"clause": "C34.tag-missing", "site": tag, "msg": f"{tag} missing from the aggregated results (tags {sorted(agg['tags'])}) :: {desc}"})
                    continue
                if any(tag not in p["tags"] for p in per):
                    V.append({"clause": "C34.tag-missing", "site": f"per-trajectory:{tag}", "msg": f"{tag} missing from a per-trajectory result :: {desc}"})
                    continue
                at = [x[0] for x in agg["tags"][tag]]
                for p in per:
                    if [x[0] for x in p["tags"][tag]] != at:
                        V.append({"clause": "C34.times-not-preserved", "site": tag, "msg": f"{tag}: aggregated times {at} vs per-trajectory times {[x[0] for x in p['tags'][tag]]} :: {desc}"})
                        break
                else:
                    for i, (t, v) in enumerate(agg["tags"][tag]):
                        vals = [p["tags"][tag][i][1] for p in per]
                        if isinstance(v, dict) and "__counter__" in v:
                            tot: dict[str, int] = {}
                            for pv in vals:
                                for bs, c in pv["__counter__"].items():
                                    tot[bs] = tot.get(bs, 0) + c
                            shots = obs[0]["shots"]
                            if sum(v["__counter__"].values()) != ntraj * shots:
                                V.append({"clause": "C34.bitstring-total", "site": backend, "msg": f"bitstrings@{t}: aggregated counts sum to {sum(v['__counter__'].values())}, expected n_trajectories x shots = {ntraj} x {shots} :: {desc}"})
                                break
                            if tot != v["__counter__"]:
                                V.append({"clause": "C34.bitstring-union", "site": backend, "msg": f"bitstrings@{t}: aggregated counter {dict(list(v['__counter__'].items())[:6])} is not the multiset union of the {n_rec} recorded counters {dict(list(tot.items())[:6])} :: {desc}"})
                                break
                        elif isinstance(v, np.ndarray):
                            mean = np.mean(np.stack([np.asarray(x) for x in vals]), axis=0)
                            scale = max(1.0, float(np.max(np.abs(mean))) if mean.size else 1.0)
                            d = float(np.max(np.abs(v - mean))) if mean.size else 0.0
                            if d > 1e-12 * scale:
                                V.append({"clause": "C34.mean", "site": tag, "msg": f"{tag}@{t}: aggregated value differs from the mean of the {n_rec} recorded per-trajectory values by {d:.3e} :: {desc}"})
                                break
        # ---- isolation: re-simulate recorded trajectories alone
        n_iso = min(len(history), 3 if tier == "quick" else 6)
        if n_iso and history:
            picks = set(tape.int(0, len(history) - 1, f"iso{i}") for i in range(n_iso))
            # bias towards where in-flight state exists: the LAST repetition of a group that shares its drive
            # tensors with earlier repetitions, first of all groups with dark atoms (the SUT masks those in place)
            last_of: dict[int, int] = {}
            count_of: dict[int, int] = {}
            for i_h, h_ in enumerate(history):
                last_of[h_["data_id"]] = i_h
                count_of[h_["data_id"]] = count_of.get(h_["data_id"], 0) + 1
            shared = [i_h for k_, i_h in last_of.items() if count_of[k_] > 1]
            dark = [i_h for i_h in shared if any(history[i_h]["data"].bad_atoms)]
            if dark:
                picks.add(dark[tape.int(0, len(dark) - 1, "iso_dark")])
            if shared:
                picks.add(shared[tape.int(0, len(shared) - 1, "iso_shared")])
            picks = sorted(picks)
            for k in picks:
                h = history[k]

                def fn2(inc: Any, h: dict = h) -> Any:
                    import emu_mps
                    import emu_sv

                    B = emu_mps.MPSBackend if backend == "mps" else emu_sv.SVBackend
                    config = S.make_config(scn, cfg)
                    rng_restore(h["rng"])
                    return B._run_from_sequence_data(copy.deepcopy(h["data"]), config)

                def fn3(inc: Any, h: dict = h, k: int = k) -> Any:
                    """The k-th trajectory from a freshly built trajectory list (same seeds, so Pulser samples the same
                    noise), with NONE of the earlier ones simulated: whatever they might have left behind in tensors
                    shared through the config or the adapter is not there."""
                    import emu_mps
                    import emu_sv
                    from emu_base import PulserData

                    B = emu_mps.MPSBackend if backend == "mps" else emu_sv.SVBackend
                    config = S.make_config(scn, cfg)
                    data = list(PulserData(sequence=seq, config=config, dt=config.dt).get_sequences())
                    if len(data) != n_rec:
                        raise _Skip(f"{len(data)} trajectories rebuilt, {n_rec} recorded")
                    rng_restore(h["rng"])
                    return B._run_from_sequence_data(data[k], config)

                use_list = not twice and tape.bool(0.5, f"iso_from_fresh_list{k}")
                o2 = M.run_incarnation(world, fn3 if use_list else fn2, seeds=seeds, perm_chooser=C.perm_chooser(case) if backend == "mps" else None)
                if use_list and o2.error is not None and ("_Skip" in type(o2.error).__name__ or isinstance(o2.error, (ImportError, TypeError, AttributeError))):
                    o2 = M.run_incarnation(world, fn2, seeds=seeds, perm_chooser=C.perm_chooser(case) if backend == "mps" else None)
                    use_list = False
                evals += 1
                probes["isolation_rerun_done"] = probes.get("isolation_rerun_done", 0) + 1
                if use_list:
                    probes["isolation_from_fresh_trajectory_list"] = probes.get("isolation_from_fresh_trajectory_list", 0) + 1
                if o2.error is not None:
                    V.append({"clause": "C34.isolation-raised", "site": o2.error_site or "?", "msg": f"trajectory #{k} simulated alone raised {o2.error!r} although it ran inside run() :: {desc}"})
                    continue
                d = R.compare(h["result"], o2.results, tol=1e-10)
                if d:
                    V.append({"clause": "C34.trajectories-not-independent", "site": backend, "msg": f"trajectory #{k} of {n_rec}, re-simulated alone from its pre-call SequenceData and RNG state, differs from what run() recorded for it: {d[:3]} :: {desc}"})
        # ---- probes / keys
        if ntraj >= 2:
            probes["n_ge_2"] = 1
        if ntraj >= 10:
            probes["n_ge_10"] = 1
        if ntraj == 1:
            probes["n_equals_1"] = 1
        s2s = [k for k in kinds if k != "lindblad"]
        if s2s:
            probes["shot_to_shot_noise"] = 1
        if kinds == ["lindblad"]:
            probes["trajectory_invariant_noise"] = 1
        if "lindblad" in kinds and s2s:
            probes["lindblad_plus_shot_to_shot"] = 1
        if 0 < distinct_data < n_rec:
            probes["reps_grouped"] = 1
        if any(any(h["data"].bad_atoms) for h in history):
            probes["dark_atoms_in_some_trajectory"] = 1
        nb = "1" if ntraj == 1 else ("2-4" if ntraj <= 4 else ("5-12" if ntraj <= 12 else "13+"))
        key = f"{backend}|{'+'.join(kinds)}|n={nb}|reps={'grouped' if distinct_data < n_rec else 'distinct'}|{','.join(sorted(o['kind'][:6] for o in obs))}"
        return {
            "violations": V,
            "cases": [(key, ntraj >= 2)],
            "evals": evals,
            "probes": probes,
            "digest": world.log.digest() + M.sha(repr(R.summarize(agg)).encode()),
            "scenario": desc,
            "sample": {"scenario": desc, "distinct_sequence_data_objects": distinct_data, "recorded_trajectories": n_rec, "aggregated": R.summarize(agg)},
            "sim_ns": T * (n_rec + evals - 1),
            "sim_wall_s": world.clock.total_advanced,
            "faults": {"noise_trajectories_sampled": n_rec},
        }
    finally:
        world.close()
