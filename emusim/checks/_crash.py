"""Shared crash/resume history explorer for C26 (resume == uninterrupted) and C27 (a
loadable autosave survives a crash during autosaving)."""
from __future__ import annotations

import errno
import math
from typing import Any

from .. import mpsrun as M
from .. import results as R
from .. import scenario as S
from ..seams import World
from ..tape import Tape

PREFIX = "emu_mps_save_"
REFERENCE_BUDGET = 1500  # progress() calls of the uninterrupted reference run


# --------------------------------------------------------------------------------------
# scenario
# --------------------------------------------------------------------------------------
def gen_noise(tape: Tape, allow_leak: bool = True) -> dict:
    kind = tape.choice(["relaxation", "dephasing", "depolarizing", "eff", "relax+deph"] + (["eff3"] if allow_leak else []), "noise_kind")
    r = lambda tag: round(tape.float(0.5, 25.0, tag), 3)  # noqa: E731  (1/us)
    if kind == "relaxation":
        return {"relaxation_rate": r("rate")}
    if kind == "dephasing":
        return {"dephasing_rate": r("rate")}
    if kind == "depolarizing":
        return {"depolarizing_rate": r("rate")}
    if kind == "relax+deph":
        return {"relaxation_rate": r("rate1"), "dephasing_rate": r("rate2")}
    if kind == "eff":
        ops = [[[0.0, 1.0], [0.0, 0.0]], [[1.0, 0.0], [0.0, -1.0]], [[0.0, 0.0], [1.0, 0.0]]]
        k = tape.int(1, 2, "eff_k")
        idx = tape.permutation(3, "eff_which")[:k]
        return {"eff_noise_rates": [r(f"er{i}") for i in idx], "eff_noise_opers": [ops[i] for i in idx]}
    # 3x3 with leakage
    ops3 = [
        [[0.0, 0.0, 0.0], [0.0, 0.0, 0.0], [1.0, 0.0, 0.0]],  # r -> x
        [[0.0, 1.0, 0.0], [0.0, 0.0, 0.0], [0.0, 0.0, 0.0]],
        [[1.0, 0.0, 0.0], [0.0, -1.0, 0.0], [0.0, 0.0, 0.0]],
    ]
    k = tape.int(1, 2, "eff_k")
    idx = tape.permutation(3, "eff_which")[:k]
    return {"eff_noise_rates": [r(f"er{i}") for i in idx], "eff_noise_opers": [ops3[i] for i in idx], "with_leakage": True}


def xy_compatible(noise: dict | None) -> dict | None:
    """Pulser simulates only dephasing / depolarizing / effective noise / SPAM / leakage / register noise in XY mode and
    the adapter refuses the rest (a documented refusal, C04's subject): relaxation becomes dephasing, amplitude and
    detuning fluctuations are dropped."""
    if not noise:
        return noise
    out = dict(noise)
    if "relaxation_rate" in out:
        out["dephasing_rate"] = round(out.get("dephasing_rate", 0.0) + out.pop("relaxation_rate"), 6)
    for k in ("amp_sigma", "detuning_sigma"):
        out.pop(k, None)
    return out or None


def gen_case(tape: Tape, tier: str, prof: dict) -> dict:
    scn = S.gen_scenario(tape, prof)
    seq = S.build_sequence(scn)
    T = seq.get_duration(include_fall_time=bool(scn.get("modulation")))
    max_steps = prof.get("max_steps", 12)
    dts = [d for d in [1, 2.5, 3, 7, 10, 25, 50, "T+5"] if T / S.resolve_dt(d, T) <= max_steps] or ["T+5"]
    dt = S.resolve_dt(tape.choice(dts, "dt"), T)
    solver = tape.weighted(["tdvp", "noisy", "dmrg"], prof.get("solver_w", [0.5, 0.3, 0.2]), "solver")
    kinds = list(S.OBS_KINDS)
    obs, dflt = S.gen_observables(tape, T, dt, kinds=kinds, shots=(1, 60))
    cfg: dict[str, Any] = {
        "backend": "mps",
        "dt": dt,
        "observables": obs,
        "default_times": dflt,
        "precision": tape.choice([1e-5, 1e-8], "precision"),
        "max_bond_dim": tape.choice([1024, 4, 2], "max_bond_dim"),
        "optimize": tape.bool(0.5, "optimize"),
        "solver": "dmrg" if solver == "dmrg" else "tdvp",
        "autosave_dt": round(tape.float(10.5, 60.0, "autosave_dt"), 2),
    }
    if solver == "noisy":
        cfg["noise"] = gen_noise(tape)
    elif tape.bool(prof.get("p_spam", 0.15), "spam"):
        cfg["noise"] = {
            "state_prep_error": round(tape.float(0.05, 0.6, "prep"), 2),
            "p_false_pos": round(tape.float(0.0, 0.3, "pfp"), 2),
            "p_false_neg": round(tape.float(0.0, 0.3, "pfn"), 2),
            "runs": 1,
            "samples_per_run": 1,
        }
    if scn.get("xy") and cfg.get("noise"):
        cfg["noise"] = xy_compatible(cfg["noise"])
    n = len(scn["atoms"])
    # observables that carry states / operators inside the pickled config, and that cannot be un-permuted
    # (the config safeguard must then switch reordering off)
    if tape.bool(prof.get("p_rich_obs", 0.3), "rich_obs") and not (cfg.get("noise") or {}).get("with_leakage"):
        t_rich = sorted({1.0} | ({0.5} if T % 2 == 0 or True else set()))
        for k in ("state", "fidelity", "expectation", "entanglement_entropy"):
            if tape.bool(0.5, f"rich_{k}"):
                d: dict[str, Any] = {"kind": k, "times": [1.0] if k == "state" else t_rich}
                if k in ("expectation", "entanglement_entropy"):
                    d["site"] = tape.int(0, max(0, n - 2), f"site_{k}")
                if k == "fidelity":
                    d["bits"] = "".join("r" if tape.bool(0.4, f"fb{i}") else "g" for i in range(n))
                obs.append(d)
    # options that travel inside the pickled config and select less-used code paths
    if not cfg.get("noise") and not scn.get("xy") and tape.bool(0.12, "user_initial_state"):
        bits = "".join("r" if tape.bool(0.5, f"ib{i}") else "g" for i in range(n))
        cfg["initial_bits"] = bits if "r" in bits else "r" + bits[1:]
    if not scn.get("slm") and tape.bool(0.1, "user_interaction_matrix"):
        m = [[0.0] * n for _ in range(n)]
        for i in range(n):
            for j in range(i + 1, n):
                m[i][j] = m[j][i] = round(tape.float(0.0, 15.0, f"u{i}{j}"), 3)
        cfg["interaction_matrix"] = m
    if tape.bool(0.1, "interaction_cutoff"):
        cfg["interaction_cutoff"] = tape.choice([0.5, 2.0, 5.0], "cutoff")
    if tape.bool(0.1, "log_file"):
        cfg["log_file"] = "emu_run.log"
    pk = tape.choice(["identity", "reverse", "random", "real"], "perm_kind") if cfg["optimize"] else "identity"
    perm = list(range(n))
    if pk == "reverse":
        perm = perm[::-1]
    elif pk == "random":
        perm = tape.permutation(n, "perm")
    return {"scn": scn, "seq": seq, "T": T, "cfg": cfg, "solver": solver, "perm_kind": pk, "perm": perm}


def perm_chooser(case: dict):
    if not case["cfg"]["optimize"]:
        return None
    cache: dict = {}

    def choose(matrix: Any, real: Any) -> list[int]:
        n = matrix.shape[0]
        if case["perm_kind"] == "real":
            # the real optimiser is unseeded-random inside; pin its answer per scenario
            if "p" not in cache:
                cache["p"] = [int(x) for x in real()]
            return cache["p"]
        p = case["perm"]
        return p if len(p) == n else list(range(n))

    return choose


def clock_policy(tape: Tape, autosave_dt: float, mode: str | None = None):
    mode = mode or tape.weighted(["every", "period", "bernoulli", "never"], [0.35, 0.3, 0.3, 0.05], "clock_mode")
    big = autosave_dt + 1.0
    if mode == "every":
        return mode, (lambda n: big)
    if mode == "period":
        k = tape.int(2, 9, "clock_period")
        return f"period{k}", (lambda n: big if n % k == k - 1 else 0.003)
    if mode == "bernoulli":
        p = tape.choice([0.1, 0.3, 0.6], "clock_p")
        sub = tape.fork("clock_fork")
        return f"bernoulli{p}", (lambda n: big if sub.bool(p, "tick") else 0.003)
    return "never", (lambda n: 0.003)


def torn_lengths(tape: Tape):
    picks = [tape.float(0.0, 1.0, f"torn{i}") for i in range(2)]

    def f(size: int) -> list[int]:
        out = {1, size - 1, max(1, (size // 4096) * 4096 - 4096 * 0)}
        for p in picks:
            out.add(max(1, min(size - 1, int(p * size))))
        out.add(min(size - 1, 4096))
        return sorted(x for x in out if 0 < x < size)

    return f


# --------------------------------------------------------------------------------------
# the history
# --------------------------------------------------------------------------------------
class History:
    def __init__(self) -> None:
        self.violations: list[dict] = []
        self.cases: list[tuple[str, bool]] = []
        self.evals = 0
        self.faults: dict[str, int] = {}
        self.probes: dict[str, int] = {}
        self.notes: dict = {}

    def viol(self, clause: str, site: str, msg: str, **detail: Any) -> None:
        self.violations.append({"clause": clause, "site": site, "msg": msg, "detail": detail})

    def probe(self, name: str, n: int = 1) -> None:
        self.probes[name] = self.probes.get(name, 0) + n

    def fault(self, name: str, n: int = 1) -> None:
        self.faults[name] = self.faults.get(name, 0) + n


def reference_run(world: World, case: dict, seeds: tuple) -> M.Outcome:
    world.clock.policy = lambda n: 0.003
    return M.run_incarnation(
        world,
        M.mps_run_fn(case["seq"], case["scn"], case["cfg"], autosave_dt=None),
        seeds=seeds,
        perm_chooser=perm_chooser(case),
        # cost guard, not a liveness claim: scenarios whose uninterrupted run needs more units of work than this
        # (e.g. DMRG at bond dimension 2, which takes hundreds of sweeps per step) are skipped as too expensive
        budget=case.get("budget") or REFERENCE_BUDGET,
    )


def forward_run(world: World, case: dict, seeds: tuple, policy: Any, torn: Any, stale: dict | None = None) -> M.Outcome:
    world.clock.policy = policy
    return M.run_incarnation(
        world,
        M.mps_run_fn(case["seq"], case["scn"], case["cfg"]),
        files=stale,
        seeds=seeds,
        perm_chooser=perm_chooser(case),
        record=True,
        torn=torn,
        budget=case.get("budget"),
    )


def resume_run(world: World, case: dict, files: dict, base: str, rng: dict | None, as_path: bool, policy: Any, record: bool = False, torn: Any = None, faults: dict | None = None) -> M.Outcome:
    world.clock.policy = policy
    return M.run_incarnation(
        world,
        M.mps_resume_fn(base, as_path),
        files=files,
        rng_state=rng,
        seeds=None if rng is not None else (1, 2, 3),
        perm_chooser=perm_chooser(case),
        record=record,
        torn=torn,
        faults=faults,
        budget=case.get("budget"),
    )


def compare_resumed(case: dict, ref: M.Outcome, rs: M.Outcome, rng: dict | None) -> list[str]:
    """Resumed results vs the uninterrupted reference.  When the harness could not learn the RNG state that belongs to
    the snapshot (the file did not become visible through an operation it intercepts), the resumed incarnation ran on
    another random stream: values that depend on it - every value of a quantum-jump run, sampled bit strings otherwise
    - are then not comparable run by run, and only tags, times and atom order are."""
    if rng is not None:
        return R.compare(ref.results, rs.results)
    noisy = bool((case["cfg"].get("noise") or {}).keys() - {"state_prep_error", "p_false_pos", "p_false_neg", "runs", "samples_per_run"}) or bool((case["cfg"].get("noise") or {}).get("state_prep_error"))
    skip = tuple(ref.results["tags"]) if noisy else tuple(t for t in ref.results["tags"] if t == "statistics" or t.startswith("bitstrings"))
    return R.compare(ref.results, rs.results, skip_values=skip)


def fresh_interpreter_resume(case: dict, files: dict, base: str, rng: dict | None) -> dict:
    """The same restart in a brand-new Python process (no module globals, loggers, caches or run-time-created classes
    survive; another PYTHONHASHSEED): emusim.child resumes from the crash world under the same seams and hands the
    canonical results back.  Returns {"results", "error", "leftover"}."""
    import os
    import pickle
    import subprocess
    import tempfile

    from ..bootstrap import VERIF_DIR
    from ..seams import HarnessError

    real_perm = case["cfg"]["optimize"] and case["perm_kind"] == "real"
    job = {"files": files, "base": base, "rng": rng, "perm": None if real_perm else case["perm"], "optimize": bool(case["cfg"]["optimize"]) and not real_perm, "as_path": True}
    with tempfile.TemporaryDirectory(dir="/dev/shm") as td:
        with open(os.path.join(td, "job.pickle"), "wb") as f:
            pickle.dump(job, f)
        env = dict(os.environ, PYTHONHASHSEED="4242", PYTHONPATH=VERIF_DIR, EMUSIM_REEXEC="1", OMP_NUM_THREADS="1")
        r = subprocess.run(["/venv/bin/python", "-W", "ignore", "-m", "emusim.child", os.path.join(td, "job.pickle"), os.path.join(td, "out.pickle")], env=env, cwd=VERIF_DIR, capture_output=True, text=True, timeout=900)
        if r.returncode != 0 or not os.path.exists(os.path.join(td, "out.pickle")):
            raise HarnessError(f"fresh-interpreter child failed (exit {r.returncode}): {r.stderr[-1500:]}")
        with open(os.path.join(td, "out.pickle"), "rb") as f:
            return pickle.load(f)


def stage_of(w: dict, total_pcalls: int) -> str:
    if w["pcall"] >= total_pcalls and not w["inside"]:
        return "final"
    if w["pcall"] == 0:
        return "init"
    return "run"


def site_of(w: dict, base: str | None) -> str:
    s = f"{w['op']}:{w['phase']}:{M.role(w['name'], base)}"
    if w.get("dst"):
        s += f"->{M.role(w['dst'], base)}"
    if w.get("torn") is not None:
        s += ":torn"
    return s


def describe_world(w: dict, base: str | None) -> dict:
    return {
        "point": w["n"],
        "site": site_of(w, base),
        "save": w["save"],
        "progress_call": w["pcall"],
        "torn_prefix": w.get("torn"),
        "files": {n: (len(b) if b is not None else None) for n, b in w["files"].items()},
    }
