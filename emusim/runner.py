"""Batch runner: seeded search over simulated runs, classification of failures,
minimisation, replay files, known findings, evidence."""
from __future__ import annotations

import argparse
import concurrent.futures as cf
import faulthandler
import hashlib
import importlib
import json
import multiprocessing as mp
import os
import re
import sys
import time
import traceback
from typing import Any

from . import bootstrap
from .tape import Tape, derive_seed

HARNESS_VERSION = "1"
VERIF = bootstrap.VERIF_DIR
CHECK_IDS = ["C03", "C14", "C15", "C17", "C18", "C19", "C21", "C26", "C27", "C34"]


def load_check(cid: str):
    return importlib.import_module(f"emusim.checks.{cid.lower()}")


# --------------------------------------------------------------------------------------
# worker side
# --------------------------------------------------------------------------------------
def _worker_init() -> None:
    devnull = os.open(os.devnull, os.O_WRONLY)
    if not os.environ.get("EMUSIM_DEBUG"):
        os.dup2(devnull, 1)
        os.dup2(devnull, 2)
    import warnings

    warnings.filterwarnings("ignore")
    import logging

    logging.disable(logging.CRITICAL)


def execute(cid: str, tier: str, seed: int, run_index: int, recorded: list | None = None, opts: dict | None = None) -> dict:
    """One simulated run = a pure function of (seed, check, run_index) or of a tape."""
    mod = load_check(cid)
    tape = Tape(seed=derive_seed(seed, cid, run_index)) if recorded is None else Tape(recorded=recorded)
    t0 = time.perf_counter()
    opts = dict(opts or {})
    opts.setdefault("_seed", seed)
    opts.setdefault("_run_index", run_index)
    try:
        res = mod.run_one(tape, tier, opts)
    except BaseException as e:  # harness failure, never a verdict
        if isinstance(e, KeyboardInterrupt):
            raise
        return {"run_index": run_index, "harness_error": "".join(traceback.format_exception(e))[-4000:], "tape": tape.record}
    res["run_index"] = run_index
    res["tape"] = tape.record
    res["cpu_s"] = time.perf_counter() - t0
    return res


def _task(a: tuple) -> dict:
    cid, tier, seed, run_index, recorded, opts, timeout = a
    faulthandler.dump_traceback_later(timeout, exit=True)
    try:
        return execute(cid, tier, seed, run_index, recorded, opts)
    finally:
        faulthandler.cancel_dump_traceback_later()


# --------------------------------------------------------------------------------------
# violations
# --------------------------------------------------------------------------------------
def signature(v: dict) -> str:
    return f"{v.get('clause', '?')}|{v.get('site', '?')}"


def load_known() -> list[dict]:
    p = os.path.join(VERIF, "known_findings.json")
    if not os.path.exists(p):
        return []
    with open(p) as f:
        return json.load(f).get("findings", [])


def match_known(cid: str, v: dict, known: list[dict]) -> dict | None:
    sig = signature(v)
    for k in known:
        if k.get("property") == cid and k.get("status") == "open" and re.search(k["signature"], sig):
            return k
    return None


def _interesting(cid: str, tier: str, sig: str, opts: dict):
    def test(rec: list) -> tuple[bool, dict]:
        r = execute(cid, tier, 0, -1, recorded=rec, opts=opts)
        ok = any(signature(v) == sig for v in r.get("violations", []))
        return ok, r

    return test


def minimise(cid: str, tier: str, rec: list, sig: str, opts: dict, max_execs: int = 200, max_s: float = 120.0) -> tuple[list, dict, int]:
    from .shrink import shrink

    return shrink(rec, _interesting(cid, tier, sig, opts), max_execs=max_execs, max_s=max_s)


def write_replay(cid: str, tier: str, seed: int, res: dict, v: dict, min_tape: list | None, min_res: dict | None, opts: dict, subdir: str = "") -> str:
    d = os.path.join(VERIF, "replays", subdir) if subdir else os.path.join(VERIF, "replays")
    os.makedirs(d, exist_ok=True)
    final = min_res if min_res is not None else res
    fv = next((x for x in final.get("violations", []) if signature(x) == signature(v)), v)
    body = {
        "property": cid,
        "check": f"emusim.checks.{cid.lower()}",
        "harness_version": HARNESS_VERSION,
        "tier": tier,
        "opts": opts,
        "repo": bootstrap.repo_state(),
        "VERIF_SEED": seed,
        "run_index": res.get("run_index"),
        "signature": signature(v),
        "violation": fv,
        "tape": min_tape if min_tape is not None else res["tape"],
        "tape_full": res["tape"],
        "tape_len": [len(res["tape"]), len(min_tape) if min_tape is not None else None],
        "scenario": final.get("scenario"),
        "schedule": final.get("schedule"),
        "digest": final.get("digest"),
        "events_tail": final.get("events_tail"),
    }
    h = hashlib.sha256(signature(v).encode()).hexdigest()[:8]
    path = os.path.join(d, f"{cid}-{seed}-{res.get('run_index')}-{h}.json")
    with open(path, "w") as f:
        json.dump(body, f, indent=1, default=str)
    return path


def do_replay(path: str) -> int:
    with open(path) as f:
        body = json.load(f)
    cid, tier = body["property"], body["tier"]
    if (body.get("violation") or {}).get("batch"):
        # a verdict over many simulated runs (statistical acceptance): the check re-executes the whole batch
        try:
            r = load_check(cid).replay_batch(body, tier)
        except Exception:
            r = {"harness_error": traceback.format_exc()}
    else:
        r = execute(cid, tier, 0, -1, recorded=body["tape"], opts=body.get("opts") or {})
    if "harness_error" in r:
        print("HARNESS-ERROR during replay:\n" + r["harness_error"])
        return 2
    sigs = [signature(v) for v in r.get("violations", [])]
    same_sig = body["signature"] in sigs
    same_digest = body.get("digest") in (None, r.get("digest"))
    for v in r.get("violations", []):
        print(f"replayed violation: {signature(v)} :: {v.get('msg', '')[:300]}")
    print(f"replay: signature reproduced={same_sig} digest reproduced={same_digest} (recorded {body.get('digest')}, now {r.get('digest')})")
    if same_sig:
        print(f"VIOLATION property={cid} replay={path}")
        return 1
    print("replay: the recorded violation did NOT reproduce on this tree")
    return 0


# --------------------------------------------------------------------------------------
# evidence
# --------------------------------------------------------------------------------------
def write_evidence(cid: str, mod: Any, tier: str, seed: int, results: list[dict], wall: float, n_viol: int, notes: dict) -> str:
    import jsonschema

    evals = sum(int(r.get("evals", 1)) for r in results)
    cases: dict[str, bool] = {}
    faults: dict[str, int] = {}
    probes: dict[str, int] = {}
    sim_wall = 0.0
    sim_ns = 0.0
    skipped: dict[str, int] = {}
    for r in results:
        for key, nontrivial in r.get("cases", []):
            cases[key] = cases.get(key, False) or bool(nontrivial)
        for k, c in r.get("faults", {}).items():
            faults[k] = faults.get(k, 0) + int(c)
        for k, c in r.get("probes", {}).items():
            probes[k] = probes.get(k, 0) + int(c)
        sim_wall += float(r.get("sim_wall_s", 0.0))
        sim_ns += float(r.get("sim_ns", 0.0))
        if r.get("skipped"):
            skipped[r["skipped"]] = skipped.get(r["skipped"], 0) + 1
    samples = [r["sample"] for r in results if r.get("sample")][:4]
    if not samples:
        samples = [{"run_index": r.get("run_index"), "scenario": r.get("scenario")} for r in results[:2]]
    distinct = sum(1 for v in cases.values() if v)
    stuck = sorted(k for k in getattr(mod, "PROBES", []) if probes.get(k, 0) == 0)
    cov = {
        "evaluations": max(1, evals),
        "distinct_nontrivial": distinct,
        "rule": mod.RULE,
        "samples": samples,
        "simulated_runs": len(results),
        "runs_per_hour": round(len(results) / max(wall, 1e-9) * 3600.0, 1),
        "seeds": {"VERIF_SEED": seed, "run_indices": [0, len(results) - 1] if results else []},
        "simulated_wall_clock_s": round(sim_wall, 3),
        "emulated_ns": round(sim_ns, 1),
        "faults_fired": faults,
        "probes": probes,
        "probes_stuck_at_zero": stuck,
        "distinct_cases_total": len(cases),
        "skipped_scenarios": skipped,
        "components": getattr(mod, "COMPONENTS", {}),
        "exhaustive": False,
    }
    cov.update(notes)
    ev = {
        "property_id": cid,
        "tier": tier,
        "seed": int(seed),
        "level": mod.LEVEL,
        "coverage": cov,
        "assumptions": list(getattr(mod, "ASSUMPTIONS", [])),
        "wall_s": round(wall, 2),
        "violations": int(n_viol),
    }
    with open("/root/.vp/EVIDENCE.schema.json") as f:
        schema = json.load(f)
    jsonschema.validate(ev, schema)
    os.makedirs(os.path.join(VERIF, "evidence"), exist_ok=True)
    path = os.path.join(VERIF, "evidence", f"{cid}.json")
    tmp = path + ".tmp"
    with open(tmp, "w") as f:
        json.dump(ev, f, indent=1, default=str)
    os.replace(tmp, path)
    return path


# --------------------------------------------------------------------------------------
# main
# --------------------------------------------------------------------------------------
def run_batch(cid: str, tier: str, seed: int, n_runs: int, workers: int, wall_cap: float, task_timeout: int, opts: dict, first: int = 0) -> tuple[list[dict], bool]:
    results: list[dict] = []
    t0 = time.time()
    capped = False
    ctx = mp.get_context("fork")
    load_check(cid)
    import gc

    gc.collect()
    gc.freeze()  # keeps the GC of forked workers from touching (= copying) the parent's heap
    with cf.ProcessPoolExecutor(max_workers=workers, mp_context=ctx, initializer=_worker_init) as pool:
        pending: dict = {}
        nxt = first
        end = first + n_runs
        broken = False
        while (nxt < end and not broken) or pending:
            while nxt < end and len(pending) < workers * 2 and not capped and not broken:
                try:
                    fut = pool.submit(_task, (cid, tier, seed, nxt, None, opts, task_timeout))
                except cf.process.BrokenProcessPool:
                    # a worker died abruptly (watchdog, a native crash, the OOM killer): this pool is finished; what is
                    # still pending in it is collected below as lost, everything is then finished in fresh pools
                    broken = True
                    break
                pending[fut] = nxt
                nxt += 1
            if not pending:
                break
            done, _ = cf.wait(list(pending), timeout=5.0, return_when=cf.FIRST_COMPLETED)
            for fut in done:
                idx = pending.pop(fut)
                try:
                    results.append(fut.result())
                except Exception as e:
                    results.append({"run_index": idx, "harness_error": f"worker died / raised: {e!r}"})
            if time.time() - t0 > wall_cap and not capped:
                capped = True
                nxt = end
    # a worker that dies (watchdog, OOM kill) breaks the whole pool and every future still in it: give those runs one
    # more chance in a fresh, smaller pool before declaring a harness failure (a run is a pure function of its index)
    lost = [r["run_index"] for r in results if "worker died" in str(r.get("harness_error", ""))]
    if broken and not capped and time.time() - t0 <= wall_cap:
        lost += list(range(nxt, end))  # never submitted because the pool broke
    if lost and not opts.get("_no_retry"):
        results = [r for r in results if r["run_index"] not in set(lost)]
        # one run per single-use worker process: a run that kills its worker again takes nothing else with it, and is
        # reported by index (a run is a pure function of its index)
        with cf.ProcessPoolExecutor(max_workers=max(2, workers // 2), mp_context=ctx, initializer=_worker_init, max_tasks_per_child=None) as pool:
            todo = sorted(set(lost))
            while todo:
                batch, todo = todo[: max(2, workers // 2)], todo[max(2, workers // 2) :]
                if time.time() - t0 > wall_cap * 1.5 and len(results) > 0:
                    capped = True
                    break
                try:
                    futs = {pool.submit(_task, (cid, tier, seed, i, None, opts, task_timeout * 2)): i for i in batch}
                except cf.process.BrokenProcessPool:
                    for i in batch:
                        results.append({"run_index": i, "harness_error": "worker pool broke twice"})
                    break
                died = False
                for fut, idx in futs.items():
                    try:
                        results.append(fut.result())
                    except Exception as e:
                        died = True
                        results.append({"run_index": idx, "harness_error": f"worker died / raised twice: {e!r}"})
                if died:
                    break
    results.sort(key=lambda r: r.get("run_index", 0))
    return results, capped


def main(argv: list[str] | None = None) -> int:
    bootstrap.ensure_env()
    ap = argparse.ArgumentParser(prog="check")
    ap.add_argument("check", nargs="?")
    ap.add_argument("--tier", default=os.environ.get("VERIF_TIER", "quick"), choices=["quick", "thorough"])
    ap.add_argument("--seed", type=int, default=int(os.environ.get("VERIF_SEED", "0") or 0))
    ap.add_argument("--runs", type=int, default=None)
    ap.add_argument("--first", type=int, default=0)
    ap.add_argument("--workers", type=int, default=int(os.environ.get("EMUSIM_WORKERS", "0") or 0))
    ap.add_argument("--wall", type=float, default=None)
    ap.add_argument("--replay", default=None)
    ap.add_argument("--no-shrink", action="store_true")
    ap.add_argument("--no-evidence", action="store_true")
    ap.add_argument("--opt", action="append", default=[], help="key=value passed to the check")
    ap.add_argument("--selfcheck-imports", action="store_true")
    ap.add_argument("--dump", default=None, help="write per-run digests/verdicts to this file")
    args = ap.parse_args(argv)

    try:
        bootstrap.import_sut()
    except Exception:
        print("HARNESS-ERROR cannot import the system under test:\n" + traceback.format_exc())
        return 2
    if args.selfcheck_imports:
        import jsonschema  # noqa: F401
        import pulser
        import torch

        print(f"ok: torch {torch.__version__}, pulser {pulser.__version__}, SUT from {bootstrap.REPO}")
        return 0
    if args.replay:
        return do_replay(args.replay)
    if not args.check:
        ap.error("check id required")
    cid = args.check.upper()
    mod = load_check(cid)
    opts = dict(kv.split("=", 1) for kv in args.opt)
    plan = mod.plan(args.tier)
    n_runs = args.runs if args.runs is not None else plan["runs"]
    wall_cap = args.wall if args.wall is not None else plan["wall_s"]
    workers = args.workers or min(16, os.cpu_count() or 4)
    t0 = time.time()
    print(f"# {cid} tier={args.tier} VERIF_SEED={args.seed} runs={n_runs} workers={workers} repo={bootstrap.REPO}", flush=True)
    if hasattr(mod, "prepare"):
        mod.prepare(args.tier, opts)
    results, capped = run_batch(cid, args.tier, args.seed, n_runs, workers, wall_cap, plan.get("task_timeout", 600), opts, first=args.first)

    herrs = [r for r in results if "harness_error" in r]
    if herrs:
        for r in herrs[:3]:
            print(f"HARNESS-ERROR run_index={r.get('run_index')}:\n{r['harness_error']}")
        print(f"HARNESS-ERROR {len(herrs)} of {len(results)} runs failed inside the harness; no verdict")
        return 2

    # batch-level oracles (statistical acceptance over many runs) live in the check module
    batch_viol: list[tuple[dict, dict]] = []
    notes: dict = {}
    if hasattr(mod, "finish"):
        extra, notes = mod.finish(results, args.tier, {**opts, "_seed": args.seed})
        for v in extra:
            batch_viol.append(({"run_index": v.get("run_index", -1), "tape": v.get("tape", []), "scenario": v.get("scenario"), "violations": [v]}, v))
    if capped:
        notes["wall_cap_reached"] = True

    known = load_known()
    classes: dict[str, tuple[dict, dict]] = {}
    n_total = 0
    for r in results:
        for v in r.get("violations", []):
            n_total += 1
            classes.setdefault(signature(v), (r, v))
    for r, v in batch_viol:
        n_total += 1
        classes.setdefault(signature(v), (r, v))

    n_new = 0
    n_known = 0
    printed_known: set[str] = set()
    for sig, (r, v) in sorted(classes.items()):
        k = match_known(cid, v, known)
        if k is not None:
            n_known += 1
            if k["signature"] not in printed_known:
                printed_known.add(k["signature"])
                print(f"KNOWN-FINDING: property={cid} {k.get('what', sig)}")
                if os.environ.get("EMUSIM_WRITE_KNOWN_REPLAYS"):
                    # maintenance only: (re)creates the committed replay file of a listed finding
                    p = write_replay(cid, args.tier, args.seed, {**r, "tape": v.get("tape_override") or r.get("tape", [])}, {x: y for x, y in v.items() if x != "tape_override"}, None, None, {**opts, **(v.get("opts_override") or {})}, subdir="known")
                    print(f"# known-finding replay written: {p}")
            continue
        n_new += 1
        min_tape = min_res = None
        vopts = {**opts, **(v.get("opts_override") or {})}
        if v.get("tape_override"):
            r = {**r, "tape": v["tape_override"]}
        if not args.no_shrink and r.get("tape") and not v.get("batch"):
            try:
                min_tape, min_res, nexec = minimise(cid, args.tier, r["tape"], sig, vopts)
                print(f"# minimised tape {len(r['tape'])} -> {len(min_tape)} entries in {nexec} executions")
            except Exception:
                print("# minimisation failed (reporting the unminimised run):\n" + traceback.format_exc())
                min_tape = min_res = None
        path = write_replay(cid, args.tier, args.seed, r, {k: x for k, x in v.items() if k != "tape_override"}, min_tape, min_res, vopts)
        print(f"# violation class {sig}: {v.get('msg', '')[:400]}")
        print(f"VIOLATION property={cid} replay={path}")

    wall = time.time() - t0
    if args.dump:
        with open(args.dump, "w") as f:
            json.dump([{"run_index": r["run_index"], "digest": r.get("digest"), "violations": [signature(v) for v in r.get("violations", [])], "evals": r.get("evals")} for r in results], f)
    if not args.no_evidence:
        try:
            notes["violation_classes"] = sorted(classes.keys())
            notes["known_finding_classes"] = n_known
            p = write_evidence(cid, mod, args.tier, args.seed, results, wall, n_new, notes)
            print(f"# evidence: {p}")
        except Exception:
            print("HARNESS-ERROR evidence could not be written:\n" + traceback.format_exc())
            return 2
    print(f"# {cid}: {len(results)} runs, {sum(int(r.get('evals', 1)) for r in results)} evaluations, {n_total} violating observations in {len(classes)} classes ({n_known} known), {wall:.1f}s", flush=True)
    return 1 if n_new else 0


if __name__ == "__main__":
    sys.exit(main())
