"""The choice tape: the single source of every decision of a simulated run.

Generation mode: values come from random.Random(H(seed, check, run_index)).
Replay mode:     values are read back positionally from a recorded tape, clamped
                 into the requested range; when the tape is exhausted the simplest
                 value (lo / index 0 / False) is returned.

Either way the values actually handed out are recorded, so `tape.record` after a run is
always a self-consistent tape for exactly that run.  Nothing here reads a clock or global
RNG state.
"""
from __future__ import annotations

import hashlib
import random
from typing import Any, Sequence


def derive_seed(*parts: Any) -> int:
    h = hashlib.sha256(("|".join(str(p) for p in parts)).encode()).digest()
    return int.from_bytes(h[:8], "big")


class Tape:
    __slots__ = ("rng", "src", "pos", "record", "frozen")

    def __init__(self, seed: int | None = None, recorded: Sequence | None = None):
        assert (seed is None) != (recorded is None)
        self.rng = random.Random(seed) if recorded is None else None
        # recorded entries are [label, value]
        self.src = None if recorded is None else [list(e) for e in recorded]
        self.pos = 0
        self.record: list[list] = []
        self.frozen = False

    # -- primitive ------------------------------------------------------------------
    def _next_recorded(self):
        if self.src is None or self.pos >= len(self.src):
            self.pos += 1
            return None
        v = self.src[self.pos][1]
        self.pos += 1
        return v

    def int(self, lo: int, hi: int, label: str) -> int:
        """Uniform integer in [lo, hi] (inclusive)."""
        assert lo <= hi, (lo, hi, label)
        if self.rng is not None:
            v = self.rng.randint(lo, hi)
        else:
            r = self._next_recorded()
            if r is None or isinstance(r, bool) or not isinstance(r, (int, float)):
                v = lo if r is None or not isinstance(r, bool) else lo + int(r)
            else:
                v = int(r)
            v = min(max(v, lo), hi)
        self.record.append([label, v])
        return v

    def bool(self, p: float, label: str) -> bool:
        """True with probability p.  Simplest value: False."""
        if self.rng is not None:
            v = self.rng.random() < p
        else:
            r = self._next_recorded()
            v = bool(r) if r is not None else False
            if p <= 0.0:
                v = False
        self.record.append([label, bool(v)])
        return bool(v)

    def float(self, lo: float, hi: float, label: str) -> float:
        assert lo <= hi, (lo, hi, label)
        if self.rng is not None:
            v = self.rng.uniform(lo, hi)
        else:
            r = self._next_recorded()
            if r is None or isinstance(r, bool) or not isinstance(r, (int, float)):
                v = lo
            else:
                v = float(r)
            v = min(max(v, lo), hi)
        self.record.append([label, v])
        return v

    def choice(self, seq: Sequence, label: str):
        """Element of seq; simplest value: seq[0]."""
        assert len(seq) > 0, label
        i = self.int(0, len(seq) - 1, label)
        return seq[i]

    def weighted(self, items: Sequence, weights: Sequence[float], label: str):
        """Weighted choice (recorded as an index)."""
        assert len(items) == len(weights) and len(items) > 0
        if self.rng is not None:
            i = self.rng.choices(range(len(items)), weights=weights)[0]
        else:
            r = self._next_recorded()
            i = int(r) if isinstance(r, (int, float)) and not isinstance(r, bool) else 0
            i = min(max(i, 0), len(items) - 1)
        self.record.append([label, i])
        return items[i]

    def seed32(self, label: str) -> int:
        return self.int(0, 2**31 - 1, label)

    def permutation(self, n: int, label: str) -> list[int]:
        """Fisher-Yates driven by the tape; all-zero draws give the identity."""
        p = list(range(n))
        for i in range(n - 1):
            j = self.int(0, n - 1 - i, f"{label}[{i}]") + i
            p[i], p[j] = p[j], p[i]
        return p

    def fork(self, label: str) -> "Tape":
        """A sub-tape whose draws do not shift the positions of the parent tape.

        In generation mode it is an independent PRNG seeded from one parent draw; in
        replay mode it replays nothing (a fresh PRNG from the recorded seed), which keeps
        high-volume, shrink-irrelevant draws (e.g. per-read clock ticks) off the main tape.
        """
        s = self.int(0, 2**62, label)
        return Tape(seed=s)
