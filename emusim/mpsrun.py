"""Driving emu-mps through crash / resume histories under the simulator.

The SUT's own entry points are used as a user would use them: MPSBackend(seq, config).run()
and MPSBackend.resume(path).  A crash is "stop the process, keep the disk": the forward
run records the directory contents at every file-system interception point (a crash
world) and simply continues; a world is later materialised into a fresh directory and
handed to a fresh incarnation that calls resume."""
from __future__ import annotations

import hashlib
import os
import pathlib
import pickle
import traceback
from typing import Any, Callable

from . import results as R
from . import scenario as S
from .seams import BudgetExceeded, HarnessError, SimCrash, World, rng_snapshot, wrap_method


def sha(b: bytes | None) -> str:
    return "-" if b is None else hashlib.sha256(b).hexdigest()[:16]


def sut_site(e: BaseException) -> str:
    """Innermost frame inside the tree under test (function name, no line numbers), else
    the innermost frame at all."""
    from .bootstrap import REPO

    tb = traceback.extract_tb(e.__traceback__)
    inner = None
    for fr in tb:
        if os.path.realpath(fr.filename).startswith(REPO + os.sep):
            inner = fr
    if inner is None and tb:
        inner = tb[-1]
    where = f"{os.path.basename(inner.filename)}:{inner.name}" if inner else "?"
    return f"{type(e).__name__}@{where}"


def raised_by_harness(e: BaseException) -> bool:
    """True iff the innermost frame of the traceback is harness code and the exception is
    not one the scheduler injected on purpose."""
    from .bootstrap import VERIF_DIR

    if getattr(e, "_emusim_injected", False):
        return False
    tb = traceback.extract_tb(e.__traceback__)
    return bool(tb) and os.path.realpath(tb[-1].filename).startswith(os.path.join(VERIF_DIR, "emusim") + os.sep)


def impl_classes() -> list[type]:
    import emu_mps.mps_backend_impl as m

    base = getattr(m, "MPSBackendImpl", None)
    if base is None:
        raise HarnessError("emu_mps.mps_backend_impl.MPSBackendImpl not found")
    out = [base]
    stack = [base]
    while stack:
        c = stack.pop()
        for s in c.__subclasses__():
            if s not in out:
                out.append(s)
                stack.append(s)
    return out


class ProgressProbe:
    """Counts progress() calls (the SUT's unit of work) and tells whether we are inside one."""

    def __init__(self) -> None:
        self.calls = 0
        self.inside = False
        self.budget: int | None = None
        self.on_before: Callable | None = None
        self.on_after: Callable | None = None
        self.finder_calls: set[int] = set()

    def install(self, rb: Any) -> None:
        n = 0
        for c in impl_classes():
            if "progress" in c.__dict__:
                wrap_method(rb, c, "progress", before=self._before, after=self._after)
                n += 1
        if n == 0:
            raise HarnessError("no progress() method found on the emu-mps implementation classes")

    def _before(self, impl: Any, *a: Any, **k: Any) -> Any:
        from .seams import BudgetExceeded

        self.calls += 1
        self.inside = True
        if self.budget is not None and self.calls > self.budget:
            raise BudgetExceeded(f"more than {self.budget} progress() calls")
        if self.on_before is not None:
            self.on_before(impl)
        return None

    def _after(self, tok: Any, ret: Any, impl: Any, *a: Any, **k: Any) -> None:
        self.inside = False
        if getattr(impl, "root_finder", None) is not None:
            self.finder_calls.add(self.calls)  # coverage probe only: a jump search is active after this call
        if self.on_after is not None:
            self.on_after(impl)


class NormProbe:
    """Records the norm of every state handed to a (physical) observable: wraps
    pulser.backend.observable.Observable.__call__, the one door every observable goes through."""

    def __init__(self) -> None:
        self.worst = 0.0
        self.worst_at: tuple | None = None
        self.calls = 0

    def install(self, rb: Any) -> None:
        from pulser.backend.observable import Observable

        def before(obs: Any, config: Any, t: Any, state: Any, *a: Any, **k: Any) -> None:
            tag = getattr(obs, "tag", "?")
            if tag == "statistics" or not hasattr(state, "norm"):
                return None
            try:
                nrm = float(state.norm())
            except Exception:
                return None
            self.calls += 1
            dev = abs(nrm - 1.0)
            if dev > self.worst:
                self.worst, self.worst_at = dev, (tag, float(t), nrm)
            return None

        wrap_method(rb, Observable, "__call__", before=before)


class Outcome:
    """What one incarnation produced."""

    def __init__(self) -> None:
        self.results: dict | None = None  # canonical
        self.raw: Any = None
        self.error: BaseException | None = None
        self.error_site: str | None = None
        self.worlds: list[dict] = []
        self.progress_calls = 0
        self.leftover: list[str] = []
        self.fs_points = 0
        self.opcount: dict = {}
        self.rng_by_sha: dict[str, dict] = {}


def run_incarnation(
    world: World,
    fn: Callable[[Any], Any],
    *,
    files: dict | None = None,
    seeds: tuple | None = None,
    rng_state: dict | None = None,
    perm_chooser: Callable | None = None,
    record: bool = False,
    torn: Callable[[int], list[int]] | None = None,
    faults: dict | None = None,
    budget: int | None = None,
    setup: Callable[[Any, ProgressProbe], None] | None = None,
    keep_raw: bool = False,
) -> Outcome:
    out = Outcome()
    with world.incarnation(files=files, seeds=seeds, rng_state=rng_state, perm_chooser=perm_chooser) as inc:
        probe = ProgressProbe()
        probe.budget = budget
        probe.install(inc.rb)
        disk = inc.disk
        disk.record_worlds = record
        if torn is not None:
            disk.torn_lengths = torn
        if faults:
            disk.faults = dict(faults)
        save_ord = [0]

        def ctx() -> dict:
            return {"pcall": probe.calls, "inside": probe.inside, "save": save_ord[0]}

        def on_point(rec: dict) -> None:
            if rec["op"] == "open_w" and rec["phase"] == "before":
                save_ord[0] += 1

        def on_done(name: str, data: bytes) -> None:
            out.rng_by_sha[sha(data)] = rng_snapshot()

        disk.context = ctx
        disk.on_point = on_point
        disk.on_file_completed = on_done
        if setup is not None:
            setup(inc, probe)
        try:
            raw = fn(inc)
            out.results = R.canon_results(raw)
            if keep_raw:
                out.raw = raw
        except SimCrash as e:
            out.error = e
            out.error_site = "SimCrash"
        except BudgetExceeded as e:  # the liveness budget of this incarnation ran out
            out.error = e
            out.error_site = "BudgetExceeded"
        except KeyboardInterrupt as e:
            if not getattr(e, "_emusim_injected", False):
                raise
            out.error = e  # the scheduler's Ctrl-C, after the SUT has unwound
            out.error_site = "KeyboardInterrupt"
        except Exception as e:  # the SUT (or pulser underneath it) raised
            if raised_by_harness(e):
                raise HarnessError(f"exception raised inside the harness during a SUT call: {e!r}") from e
            out.error = e
            out.error_site = sut_site(e)
        out.worlds = disk.worlds
        out.progress_calls = probe.calls
        out.finder_calls = set(probe.finder_calls)  # type: ignore[attr-defined]
        out.fs_points = disk.n
        out.opcount = dict(disk.opcount)
        out.fired = dict(disk.fired)  # type: ignore[attr-defined]
        out.fired_at = list(disk.fired_at)  # type: ignore[attr-defined]
        out.leftover = sorted(os.listdir(inc.dir))
        out.final_files = disk.snapshot()  # type: ignore[attr-defined]
    return out


def loadable(data: bytes | None, cache: dict) -> tuple[bool, str]:
    """Would pickle.load succeed on these bytes?  (What MPSBackend.resume does first.)"""
    if data is None:
        return False, "missing"
    k = sha(data)
    if k not in cache:
        try:
            import io

            obj = pickle.load(io.BytesIO(data))
            ok = hasattr(obj, "results") or True
            cache[k] = (bool(ok), "ok")
        except BaseException as e:  # truncated pickles raise EOFError/UnpicklingError/...
            cache[k] = (False, f"{type(e).__name__}")
    return cache[k]


def role(name: str | None, base: str | None) -> str:
    if name is None or base is None:
        return "?"
    if name == base:
        return "base"
    stem = base.rsplit(".", 1)[0]
    if name.startswith(stem):
        return name[len(stem):] or "base"
    return "other"


def advertised_name(worlds: list[dict], leftover: list[str], prefix: str) -> str | None:
    names: list[str] = []
    for w in worlds:
        for n in w["files"]:
            if n.startswith(prefix) and n.endswith(".dat") and n not in names:
                names.append(n)
    for n in leftover:
        if n.startswith(prefix) and n.endswith(".dat") and n not in names:
            names.append(n)
    return names[0] if names else None


def world_key(w: dict) -> tuple:
    return tuple(sorted((n, sha(b)) for n, b in w["files"].items()))


def mps_run_fn(seq: Any, scn: dict, cfg: dict, **over: Any) -> Callable[[Any], Any]:
    def fn(inc: Any) -> Any:
        import emu_mps

        config = S.make_config(scn, cfg, **over)
        return emu_mps.MPSBackend(seq, config=config).run()

    return fn


def mps_resume_fn(base: str, as_path: bool) -> Callable[[Any], Any]:
    def fn(inc: Any) -> Any:
        import emu_mps

        p = os.path.join(inc.dir, base)
        return emu_mps.MPSBackend.resume(pathlib.Path(p) if as_path else p)

    return fn
