"""Trace of the quantum-jump stepping state machine (NoisyMPSBackendImpl) and the
invariants I1-I7 of DESIGN 7.6, evaluated over the recorded history.  White-box by
nature: C18's observe_at is 'the trace emitted during progress()'."""
from __future__ import annotations

import math
from typing import Any

from .seams import HarnessError, wrap_method

TOL_NS = 1.0  # the solver's root tolerance


class JumpTrace:
    def __init__(self) -> None:
        self.ev: list[tuple] = []  # (kind, dict)
        self.impl: Any = None
        self.target_times: list[float] | None = None
        self.checked = False

    # ---- installation ------------------------------------------------------------
    def install(self, rb: Any) -> None:
        import emu_mps.mps_backend_impl as m

        noisy = getattr(m, "NoisyMPSBackendImpl", None)
        base = getattr(m, "MPSBackendImpl", None)
        if noisy is None or base is None:
            raise HarnessError("NoisyMPSBackendImpl / MPSBackendImpl not found")
        for attr in ("current_time", "_timestep_index"):
            if not hasattr(base, attr):
                raise HarnessError(f"MPSBackendImpl.{attr} not found (needed for the C18 trace)")

        def snap(impl: Any) -> dict:
            if self.impl is None:
                self.impl = impl
                self.target_times = [float(t) for t in impl.target_times]
            return {
                "t": float(impl.current_time),
                "target": float(impl.target_time),
                "idx": int(impl._timestep_index),
                "finder": getattr(impl, "root_finder", None) is not None,
                "gap": float(getattr(impl, "norm_gap_before_jump", float("nan"))),
                "thr": float(getattr(impl, "jump_threshold", float("nan"))),
            }

        def mk(kind: str):
            def before(impl: Any, *a: Any, **k: Any) -> Any:
                if isinstance(impl, noisy):
                    if kind == "sweep" and not self.checked:
                        # the state the property itself names (C18 'state'): without it no verdict is possible - say
                        # so (exit 2) instead of judging a trace full of NaNs
                        for attr in ("norm_gap_before_jump", "jump_threshold", "target_time", "target_times"):
                            if not hasattr(impl, attr):
                                raise HarnessError(f"{type(impl).__name__}.{attr} not found (needed for the C18 trace)")
                        self.checked = True
                    self.ev.append((kind + ":before", snap(impl)))
                return None

            def after(tok: Any, ret: Any, impl: Any, *a: Any, **k: Any) -> None:
                if isinstance(impl, noisy):
                    s = snap(impl)
                    if kind == "jump":
                        s["norm"] = float(impl.state.norm().item())
                    self.ev.append((kind + ":after", s))

            return before, after

        for cls, name, kind in (
            (noisy, "sweep_complete", "sweep"),
            (noisy, "timestep_complete", "step"),
            (noisy, "do_random_quantum_jump", "jump"),
            (base, "fill_results", "fill"),
        ):
            b, a = mk(kind)
            wrap_method(rb, cls, name, before=b, after=a)

        def thr_after(tok: Any, ret: Any, impl: Any, bound: Any = None, *a: Any, **k: Any) -> None:
            self.ev.append(("threshold", {"bound": float(bound) if bound is not None else float("nan"), "thr": float(impl.jump_threshold), "gap": float(impl.norm_gap_before_jump), "t": float(impl.current_time)}))

        wrap_method(rb, noisy, "set_jump_threshold", after=thr_after)


def check_trace(tr: JumpTrace, n_progress: int, sweep_len: int, finished: bool) -> tuple[list[dict], dict]:
    """Returns (violations, stats)."""
    V: list[dict] = []

    def viol(clause: str, site: str, msg: str) -> None:
        if not any(v["clause"] == clause and v["site"] == site for v in V):
            V.append({"clause": clause, "site": site, "msg": msg})

    stats = {"jumps": 0, "steps": 0, "max_jumps_in_step": 0, "jump_near_boundary": 0, "searches": 0, "max_search_iters": 0, "tiny_step": 0, "tie": 0}
    tt = tr.target_times
    if tt is None:
        return V, stats
    n_steps = len(tt) - 1
    eps_t = 1e-9 * max(1.0, tt[-1])
    completed = 0
    jumps_in_step = 0
    fills: list[float] = []
    # search bookkeeping
    pts: list[tuple[float, float]] = []  # evaluated (time, gap) points of the current segment
    searching = False
    iters = 0
    last_sweep_before: dict | None = None
    completed_in_this_sweep = False
    for kind, s in tr.ev:
        k = completed
        lo, hi = (tt[k], tt[k + 1]) if k < n_steps else (tt[-1], tt[-1])
        if kind in ("sweep:after", "step:before", "jump:before", "jump:after"):
            for nm in ("t", "target"):
                if not (lo - eps_t <= s[nm] <= hi + eps_t):
                    viol("C18.I2-time-outside-step", kind.split(":")[0], f"{nm}={s[nm]!r} outside the step in progress [{lo!r}, {hi!r}] (step {k}) at event {kind}")
        if kind == "sweep:before":
            last_sweep_before = s
            completed_in_this_sweep = False
            if not pts:
                pts = [(s["t"], s["gap"])]
        elif kind == "step:before":
            # a time step is being completed
            if s["finder"]:
                viol("C18.I1-step-completed-during-search", "timestep_complete", f"timestep_complete called while a jump search is active (t={s['t']!r})")
            if s["idx"] != completed:
                viol("C18.I1-step-order", "timestep_complete", f"time step index {s['idx']} completed, expected {completed}")
            if completed < n_steps and abs(s["t"] - tt[completed + 1]) > eps_t:
                viol("C18.I1-step-time", "timestep_complete", f"step {completed} completed at t={s['t']!r}, expected {tt[completed + 1]!r}")
            if s["gap"] < 0:
                viol("C18.I4-step-completed-below-threshold", "timestep_complete", f"step {completed} completed with norm^2 - threshold = {s['gap']!r} < 0")
            completed_in_this_sweep = True
        elif kind == "step:after":
            completed += 1
            stats["steps"] += 1
            stats["max_jumps_in_step"] = max(stats["max_jumps_in_step"], jumps_in_step)
            jumps_in_step = 0
            if completed <= n_steps and completed >= 1 and (tt[completed] - tt[completed - 1]) < TOL_NS:
                stats["tiny_step"] += 1
            pts = [(s["t"], s["gap"])]
        elif kind == "sweep:after":
            if not completed_in_this_sweep:
                pts.append((s["t"], s["gap"]))
                if s["finder"]:
                    if not searching:
                        searching = True
                        iters = 0
                        stats["searches"] += 1
                    iters += 1
                    stats["max_search_iters"] = max(stats["max_search_iters"], iters)
                    L = max(hi - lo, TOL_NS)
                    N = max(1, math.ceil(math.log2(max(L / TOL_NS, 2.0))))
                    if iters > 2 * (N + 2) ** 2 + 10:
                        viol("C18.I7-search-stalls", "sweep_complete", f"jump search in step {k} needed more than {2 * (N + 2) ** 2 + 10} sweeps (step length {L!r} ns)")
                else:
                    searching = False
                if s["gap"] == 0.0:
                    stats["tie"] += 1
        elif kind == "jump:before":
            stats["jumps"] += 1
            jumps_in_step += 1
            tj = s["t"]
            pts.append((tj, s["gap"]))  # the evaluation that made the search converge
            ok = False
            here = [p for p in pts if p[0] == tj]
            for (t1, g1) in here:
                for (t2, g2) in pts:
                    if abs(t1 - t2) < TOL_NS and g1 * g2 <= 0.0 and (t1 != t2 or g1 == 0.0):
                        ok = True
            if not ok:
                viol("C18.I3-jump-not-at-crossing", "do_random_quantum_jump", f"jump at t={tj!r} in step {k}: no evaluated pair closer than {TOL_NS} ns with a sign change of norm^2 - threshold contains it; evaluated points of this segment: {pts[-8:]}")
            if min(abs(tj - lo), abs(tj - hi)) < TOL_NS:
                stats["jump_near_boundary"] += 1
        elif kind == "jump:after":
            if not math.isclose(s.get("norm", 1.0), 1.0, abs_tol=1e-9):
                viol("C18.I5-state-not-normalised-after-jump", "do_random_quantum_jump", f"norm after jump = {s.get('norm')!r}")
            if not (0.0 <= s["thr"] <= 1.0 + 1e-9):
                viol("C18.I5-threshold-out-of-range", "do_random_quantum_jump", f"threshold after jump = {s['thr']!r}")
            if s["gap"] < -1e-12:
                viol("C18.I5-negative-gap-after-jump", "do_random_quantum_jump", f"norm^2 - threshold right after the jump = {s['gap']!r}")
            pts = [(s["t"], s["gap"])]
            searching = False
        elif kind == "fill:before":
            fills.append(s["t"])
            if s["finder"]:
                viol("C18.I6-observables-during-search", "fill_results", f"fill_results called at t={s['t']!r} while a jump search is active")
            if not any(abs(s["t"] - x) <= eps_t for x in tt):
                viol("C18.I6-observables-off-calendar", "fill_results", f"fill_results called at t={s['t']!r}, which is not a target time")
        elif kind == "sweep:after:done":
            pass
        # root_finder must be cleared after a jump, checked at the end of the sweep that jumped
        if kind == "sweep:after" and last_sweep_before is not None:
            pass
    # after-jump finder state: every 'jump:after' must be followed (same sweep) by a sweep:after with finder False
    for i, (kind, s) in enumerate(tr.ev):
        if kind == "jump:after":
            nxt = next((e for e in tr.ev[i + 1 :] if e[0] == "sweep:after"), None)
            if nxt is not None and nxt[1]["finder"]:
                viol("C18.I5-search-not-cleared-after-jump", "sweep_complete", f"root finder still active after the jump at t={s['t']!r}")
    if finished:
        if completed != n_steps:
            viol("C18.I1-steps-missing", "run", f"{completed} of {n_steps} time steps completed although the run returned")
        exp_fills = [tt[0]] + tt[1:]
        if len(fills) != len(exp_fills) or any(abs(a - b) > eps_t for a, b in zip(fills, exp_fills)):
            viol("C18.I6-fill-count", "fill_results", f"fill_results called at {fills[:12]} (n={len(fills)}), expected once at each of the {len(exp_fills)} target times")
    stats["max_jumps_in_step"] = max(stats["max_jumps_in_step"], jumps_in_step)
    return V, stats
