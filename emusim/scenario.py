"""Workload generation: a scenario is a plain JSON-able dict drawn from the tape; `build`
turns it into a Pulser Sequence plus a backend config.  The dict is what replay files
show, so it stays human readable."""
from __future__ import annotations

import dataclasses
import logging
import math
from typing import Any

import numpy as np
import pulser
from pulser import Pulse, Register, Sequence
from pulser.channels import Microwave, Rydberg
from pulser.channels.dmm import DMM
from pulser.devices import MockDevice, VirtualDevice
from pulser.noise_model import NoiseModel
from pulser.waveforms import (
    BlackmanWaveform,
    ConstantWaveform,
    InterpolatedWaveform,
    RampWaveform,
)

from .tape import Tape

_MOD_DEVICE = None


def mod_device() -> VirtualDevice:
    """MockDevice with finite modulation bandwidth on its channels (MockDevice itself has
    none, so with_modulation would be a no-op)."""
    global _MOD_DEVICE
    if _MOD_DEVICE is None:
        _MOD_DEVICE = VirtualDevice(
            name="SimModDevice",
            dimensions=2,
            rydberg_level=MockDevice.rydberg_level,
            channel_objects=(
                Rydberg.Global(None, None, mod_bandwidth=8.0),
                Rydberg.Local(None, None, mod_bandwidth=6.0, max_targets=None),
                Microwave.Global(None, None, mod_bandwidth=8.0),
            ),
            channel_ids=("rydberg_global", "rydberg_local", "mw_global"),
            dmm_objects=(DMM(),),
            supports_slm_mask=True,
            reusable_channels=True,
        )
    return _MOD_DEVICE


DEFAULT_PROFILE: dict[str, Any] = {
    "n_atoms": (2, 4),
    "min_dist": 6.5,
    "max_dist_box": 14.0,
    "n_pulses": (1, 3),
    "dur": (16, 120),
    "amp_max": 8.0,
    "det_max": 6.0,
    "p_local": 0.4,
    "p_dmm": 0.25,
    "p_slm": 0.2,
    "p_xy": 0.0,
    "p_modulation": 0.2,
    "dts": [1, 2.5, 3, 7, 10, 25, "T+5"],
    "max_steps": 40,
    "p_phase": 0.5,
    "labels": "mixed",
}


def _labels(tape: Tape, n: int, style: str) -> list:
    if style == "q":
        return [f"q{i}" for i in range(n)]
    pools = [
        [f"q{i}" for i in range(n)],
        [f"atom_{chr(97 + i)}" for i in range(n)],
        [f"{(i * 7 + 3) % 23}" for i in range(n)],
        [f"z{n - i}" for i in range(n)],
    ]
    return tape.choice(pools, "labels")


def gen_register(tape: Tape, prof: dict) -> list:
    n = tape.int(prof["n_atoms"][0], prof["n_atoms"][1], "n_atoms")
    layout = tape.choice(prof.get("layouts") or ["random", "chain", "ring", "grid"], "layout")
    dmin = prof["min_dist"]
    pts: list[tuple[float, float]] = []
    if layout == "chain":
        a = round(tape.float(dmin, dmin + 3.0, "spacing"), 2)
        pts = [(i * a, 0.0) for i in range(n)]
    elif layout == "ring" and n >= 3:
        a = round(tape.float(dmin, dmin + 3.0, "spacing"), 2)
        r = a / (2 * math.sin(math.pi / n))
        pts = [
            (round(r * math.cos(2 * math.pi * i / n), 3), round(r * math.sin(2 * math.pi * i / n), 3))
            for i in range(n)
        ]
    elif layout == "grid" and n >= 4:
        a = round(tape.float(dmin, dmin + 3.0, "spacing"), 2)
        cols = 2 if n < 6 else 3
        pts = [((i % cols) * a, (i // cols) * a) for i in range(n)]
    else:
        box = prof["max_dist_box"] + 2.0 * n
        tries = 0
        while len(pts) < n:
            x = round(tape.float(0.0, box, "x"), 2)
            y = round(tape.float(0.0, box, "y"), 2)
            tries += 1
            if all(math.hypot(x - px, y - py) >= dmin for px, py in pts):
                pts.append((x, y))
            elif tries > 200:  # fall back deterministically: extend on a line
                pts.append((max(p[0] for p in pts) + dmin + 0.5, 0.0))
    labels = _labels(tape, n, prof.get("labels", "mixed"))
    order = tape.permutation(n, "insert_order") if tape.bool(0.5, "shuffle_insert") else list(range(n))
    return [[labels[i], pts[i][0], pts[i][1]] for i in order]


def _gen_wave(tape: Tape, dur: int, vmax: float, signed: bool, tag: str) -> dict:
    kind = tape.choice(["const", "ramp", "blackman", "interp"] if not signed else ["const", "ramp", "interp"], f"{tag}_kind")
    lo = -vmax if signed else 0.0
    if dur < 4:
        kind = "const"  # pulser's 1-sample ramps are NaN; very short shaped waveforms are not the point here
    if kind == "const":
        return {"k": "const", "v": round(tape.float(lo, vmax, f"{tag}_v"), 3)}
    if kind == "ramp":
        return {
            "k": "ramp",
            "a": round(tape.float(lo, vmax, f"{tag}_a"), 3),
            "b": round(tape.float(lo, vmax, f"{tag}_b"), 3),
        }
    if kind == "blackman":
        # area such that the peak stays below vmax: peak ~ area/(0.42*dur) [rad/ns -> *1e3]
        area_max = 0.42 * dur * vmax / 1000.0
        return {"k": "blackman", "area": round(tape.float(0.05 * area_max, area_max, f"{tag}_area"), 4)}
    m = tape.int(3, 5, f"{tag}_m")
    vals = [round(tape.float(lo, vmax, f"{tag}_p{i}"), 3) for i in range(m)]
    if not signed:
        vals[0] = 0.0 if tape.bool(0.5, f"{tag}_z0") else vals[0]
    return {"k": "interp", "vals": vals}


def _mk_wave(w: dict, dur: int):
    if w["k"] == "const":
        return ConstantWaveform(dur, w["v"])
    if w["k"] == "ramp":
        return RampWaveform(dur, w["a"], w["b"])
    if w["k"] == "blackman":
        return BlackmanWaveform(dur, w["area"])
    return InterpolatedWaveform(dur, w["vals"])


def gen_scenario(tape: Tape, prof_over: dict | None = None) -> dict:
    prof = dict(DEFAULT_PROFILE)
    prof.update(prof_over or {})
    atoms = gen_register(tape, prof)
    labels = [a[0] for a in atoms]
    n = len(atoms)
    xy = tape.bool(prof["p_xy"], "xy")
    modulation = tape.bool(prof["p_modulation"], "modulation")
    has_local = (not xy) and tape.bool(prof["p_local"], "local")
    has_dmm = (not xy) and tape.bool(prof["p_dmm"], "dmm")
    # pulser refuses SLM together with modulation
    has_slm = (not modulation) and tape.bool(prof["p_slm"], "slm")
    ops: list[dict] = []
    npulses = tape.int(prof["n_pulses"][0], prof["n_pulses"][1], "n_pulses")
    dmm_weights = None
    if has_dmm:
        k = tape.int(1, n, "dmm_k")
        who = tape.permutation(n, "dmm_who")[:k]
        dmm_weights = {labels[i]: round(tape.float(0.1, 1.0, f"dmm_w{i}"), 2) for i in who}
    slm_targets = None
    if has_slm:
        k = tape.int(1, max(1, n - 1), "slm_k")
        slm_targets = [labels[i] for i in tape.permutation(n, "slm_who")[:k]]
    local_init = None
    if has_local:
        local_init = labels[tape.int(0, n - 1, "local_init")]
    local_target = local_init
    for p in range(npulses):
        dur = tape.int(prof["dur"][0], prof["dur"][1], f"dur{p}")
        chs = ["g"] + (["l"] * 2 if has_local else []) + (["d"] if has_dmm else [])
        ch = "g" if p == 0 and not has_local else tape.choice(chs, f"ch{p}")
        if ch == "l" and tape.bool(0.5, f"retarget{p}"):
            t = labels[tape.int(0, n - 1, f"target{p}")]
            if t != local_target:
                ops.append({"op": "target", "q": t})
                local_target = t
        if ch == "d":
            ops.append({"op": "dmm", "dur": dur, "wave": {"k": "const", "v": -round(tape.float(0.5, prof["det_max"] * 2, f"dmmv{p}"), 3)}})
            continue
        amp = _gen_wave(tape, dur, prof["amp_max"], False, f"amp{p}")
        det = _gen_wave(tape, dur, prof["det_max"], True, f"det{p}")
        if det["k"] == "blackman":
            det = {"k": "const", "v": 0.0}
        phase = round(tape.float(0.0, 2 * math.pi, f"phase{p}"), 3) if tape.bool(prof["p_phase"], f"hasphase{p}") else 0.0
        ops.append({"op": "pulse", "ch": ch, "dur": dur, "amp": amp, "det": det, "phase": phase})
    if not any(o["op"] == "pulse" and o["ch"] == "g" for o in ops) and has_slm:
        # SLM needs a global pulse to anchor its end time
        ops.insert(0, {"op": "pulse", "ch": "g", "dur": 20, "amp": {"k": "const", "v": 2.0}, "det": {"k": "const", "v": 0.0}, "phase": 0.0})
    scn = {
        "atoms": atoms,
        "xy": xy,
        "modulation": modulation,
        "local_init": local_init,
        "has_local": has_local,
        "dmm": dmm_weights,
        "slm": slm_targets,
        "ops": ops,
    }
    return scn


def build_sequence(scn: dict) -> Sequence:
    reg = Register({a[0]: (a[1], a[2]) for a in scn["atoms"]})
    dev = mod_device() if scn.get("modulation") else MockDevice
    if scn.get("device_noise"):
        # the noise model travels with the device (EmulationConfig.prefer_device_noise_model) instead of the config
        dev = dataclasses.replace(dev, noise_model=make_noise(scn["device_noise"]))
    seq = Sequence(reg, dev)
    if scn.get("xy"):
        seq.declare_channel("g", "mw_global")
    else:
        seq.declare_channel("g", "rydberg_global")
    if scn.get("has_local"):
        seq.declare_channel("l", "rydberg_local", initial_target=scn["local_init"])
    if scn.get("dmm"):
        dm = reg.define_detuning_map(scn["dmm"])
        seq.config_detuning_map(dm, "dmm_0")
    if scn.get("slm"):
        seq.config_slm_mask(scn["slm"])
    cur_target = scn.get("local_init")
    for o in scn["ops"]:
        if o["op"] == "target":
            if o["q"] != cur_target:
                seq.target(o["q"], "l")
                cur_target = o["q"]
        elif o["op"] == "dmm":
            seq.add_dmm_detuning(_mk_wave(o["wave"], o["dur"]), "dmm_0")
        else:
            p = Pulse(_mk_wave(o["amp"], o["dur"]), _mk_wave(o["det"], o["dur"]), o["phase"])
            seq.add(p, o["ch"])
    return seq


# --------------------------------------------------------------------------------------
# evaluation times / observables / configs
# --------------------------------------------------------------------------------------
def gen_eval_times(tape: Tape, T: float, dt: float, tag: str, allow_empty: bool = False) -> list[float]:
    style = tape.choice(["end", "grid", "linspace", "odd", "mixed", "near"], f"{tag}_style")
    ts: set[float] = set()
    nsteps = max(1, int(T // dt))
    if style == "end":
        ts = {1.0}
    elif style == "grid":
        k = tape.int(1, min(6, nsteps), f"{tag}_k")
        for i in range(k):
            j = tape.int(0, nsteps, f"{tag}_g{i}")
            ts.add(min(1.0, j * dt / T))
        if tape.bool(0.5, f"{tag}_end"):
            ts.add(1.0)
    elif style == "linspace":
        m = tape.int(2, 12, f"{tag}_m")
        ts = set(float(x) for x in np.linspace(0, 1, m))
    elif style == "odd":
        pool = [1 / 7, 2 / 7, 1 / math.pi, 1 / 3, 2 / 3, 0.123456789, math.sqrt(0.5), 0.999, 0.001]
        k = tape.int(1, 4, f"{tag}_k")
        for i in range(k):
            ts.add(tape.choice(pool, f"{tag}_o{i}"))
    elif style == "mixed":
        ts = {0.0, 1.0}
        k = tape.int(0, 4, f"{tag}_k")
        for i in range(k):
            ts.add(round(tape.float(0.0, 1.0, f"{tag}_r{i}"), 6))
    else:  # near a grid point, ~1e-13 (below pulser's 1e-12 uniqueness) is not allowed
        j = tape.int(0, nsteps, f"{tag}_j")
        g = min(1.0, j * dt / T)
        eps = tape.choice([1e-9, 1e-7, 1e-5, 3e-11], f"{tag}_eps")
        for cand in (g, g + eps, g - eps):
            if 0.0 <= cand <= 1.0:
                ts.add(cand)
    if tape.bool(0.3, f"{tag}_zero"):
        ts.add(0.0)
    out = sorted(ts)
    # pulser requires uniqueness up to 1e-12 and ascending order
    dedup: list[float] = []
    for t in out:
        if not dedup or t - dedup[-1] > 2e-12:
            dedup.append(t)
    return dedup


OBS_KINDS = ["occupation", "correlation_matrix", "energy", "energy_variance", "energy_second_moment", "bitstrings"]


def gen_observables(tape: Tape, T: float, dt: float, kinds: list[str] | None = None, always: list[str] | None = None, p_default_times: float = 0.3, shots: tuple[int, int] = (1, 200)) -> tuple[list[dict], list[float] | None]:
    kinds = kinds or OBS_KINDS
    chosen = list(always or [])
    for k in kinds:
        if k not in chosen and tape.bool(0.45, f"obs_{k}"):
            chosen.append(k)
    if not chosen:
        chosen = [kinds[0]]
    default_times = None
    obs = []
    shared = gen_eval_times(tape, T, dt, "shared")
    for k in chosen:
        mode = tape.weighted(["shared", "own", "default"], [0.4, 0.6 - p_default_times, p_default_times], f"tmode_{k}")
        d: dict[str, Any] = {"kind": k}
        if mode == "shared":
            d["times"] = shared
        elif mode == "own":
            d["times"] = gen_eval_times(tape, T, dt, f"t_{k}")
        else:
            d["times"] = None
            if default_times is None:
                default_times = gen_eval_times(tape, T, dt, "default")
        if k == "bitstrings":
            d["shots"] = tape.int(shots[0], shots[1], "shots")
        obs.append(d)
    # a second instance of an observable under its own tag (tag_suffix) and with its own times
    if tape.bool(0.2, "suffixed_observable"):
        src = obs[tape.int(0, len(obs) - 1, "suffixed_which")]
        dup = dict(src)
        dup["suffix"] = "x"
        dup["times"] = gen_eval_times(tape, T, dt, "t_sfx")
        obs.append(dup)
    # the order in which the observables are listed is the order in which the callbacks see the (shared) state object
    # and in which the adapter collects their times: part of the schedule, not of the physics
    if len(obs) > 1 and tape.bool(0.6, "shuffle_observables"):
        obs = [obs[i] for i in tape.permutation(len(obs), "obs_order")]
    return obs, default_times


def make_observable(d: dict, n_atoms: int, backend: str):
    from pulser.backend import (
        BitStrings,
        CorrelationMatrix,
        Energy,
        EnergySecondMoment,
        EnergyVariance,
        Occupation,
        StateResult,
    )

    k = d["kind"]
    kw: dict[str, Any] = {"evaluation_times": d.get("times")}
    if d.get("suffix"):
        kw["tag_suffix"] = d["suffix"]
    if k == "occupation":
        return Occupation(**kw)
    if k == "correlation_matrix":
        return CorrelationMatrix(**kw)
    if k == "energy":
        return Energy(**kw)
    if k == "energy_variance":
        return EnergyVariance(**kw)
    if k == "energy_second_moment":
        return EnergySecondMoment(**kw)
    if k == "bitstrings":
        if d.get("one_state"):
            kw["one_state"] = d["one_state"]  # explicitly naming the excited state must not change anything
        return BitStrings(num_shots=d.get("shots", 100), **kw)
    if k == "state":
        return StateResult(**kw)
    if k == "fidelity":
        from emu_mps import MPS
        from pulser.backend import Fidelity

        bits = d.get("bits") or ("r" + "g" * (n_atoms - 1))
        st = MPS.from_state_amplitudes(eigenstates=("r", "g"), amplitudes={bits: 1.0})
        return Fidelity(state=st, **kw)
    if k == "expectation":
        from emu_mps import MPO
        from pulser.backend import Expectation

        site = int(d.get("site", 0)) % n_atoms
        ops = [(1.0, [({"rr": 1.0}, [site])]), (0.5, [({"rg": 1.0, "gr": 1.0}, [(site + 1) % n_atoms])])]
        op = MPO.from_operator_repr(eigenstates=("r", "g"), n_qudits=n_atoms, operations=ops)
        return Expectation(op, **kw)
    if k == "entanglement_entropy":
        from emu_mps.observables import EntanglementEntropy

        return EntanglementEntropy(d.get("site", 0), **kw)
    raise ValueError(k)


def make_noise(nd: dict | None) -> NoiseModel | None:
    if not nd:
        return None
    kw = dict(nd)
    if "eff_noise_opers" in kw:
        kw["eff_noise_opers"] = tuple(np.array(o, dtype=complex) for o in kw["eff_noise_opers"])
        kw["eff_noise_rates"] = tuple(kw["eff_noise_rates"])
    return NoiseModel(**kw)


def make_config(scn: dict, cfg: dict, **over: Any):
    """cfg: {"backend","dt","observables","default_times","noise","n_trajectories",
    mps: "precision","max_bond_dim","optimize","solver","autosave_dt"}"""
    c = dict(cfg)
    c.update(over)
    n = len(scn["atoms"])
    holder = c.get("_obs_holder")
    if holder is not None:
        # the same observable INSTANCES are handed to several configs (runs) of one process
        obs = holder.setdefault("objs", [make_observable(d, n, c["backend"]) for d in c["observables"]])
    else:
        obs = [make_observable(d, n, c["backend"]) for d in c["observables"]]
    kw: dict[str, Any] = {
        "dt": c["dt"],
        "observables": obs,
        "log_level": logging.ERROR,
        "with_modulation": bool(scn.get("modulation")),
    }
    if c.get("default_times") is not None:
        kw["default_evaluation_times"] = c["default_times"]
    noise = make_noise(c.get("noise"))
    if noise is not None:
        kw["noise_model"] = noise
    if c.get("n_trajectories") is not None:
        kw["n_trajectories"] = c["n_trajectories"]
    if c.get("prefer_device_noise"):
        kw["prefer_device_noise_model"] = True
    if c.get("interaction_matrix") is not None:
        kw["interaction_matrix"] = c["interaction_matrix"]
    if c.get("interaction_cutoff"):
        kw["interaction_cutoff"] = c["interaction_cutoff"]
    if c.get("log_file"):
        import pathlib

        kw["log_file"] = pathlib.Path(c["log_file"])  # relative: lands in the (simulated) working directory
    if c.get("initial_mixed") and c.get("initial_state") is None and c["backend"] == "sv":
        # a mixed initial state for the master-equation solver: sum_k w_k |bits_k><bits_k|
        import torch
        from emu_sv import DensityMatrix, StateVector

        rho = None
        for bits, w in c["initial_mixed"]:
            v = StateVector.from_state_amplitudes(eigenstates=("r", "g"), amplitudes={bits: 1.0}).data
            term = float(w) * torch.outer(v, v.conj())
            rho = term if rho is None else rho + term
        c["initial_state"] = DensityMatrix(rho, gpu=False)
    if c.get("initial_bits") and c.get("initial_state") is None:
        if c["backend"] == "mps":
            from emu_mps import MPS

            c["initial_state"] = MPS.from_state_amplitudes(eigenstates=("r", "g"), amplitudes={c["initial_bits"]: 1.0})
        else:
            from emu_sv import StateVector

            c["initial_state"] = StateVector.from_state_amplitudes(eigenstates=("r", "g"), amplitudes={c["initial_bits"]: 1.0})
    if c["backend"] == "mps":
        from emu_mps import MPSConfig
        from emu_mps.solver import Solver

        kw.update(
            precision=c.get("precision", 1e-5),
            max_bond_dim=c.get("max_bond_dim", 1024),
            optimize_qubit_ordering=bool(c.get("optimize", False)),
            num_gpus_to_use=0,
            solver=Solver.DMRG if c.get("solver") == "dmrg" else Solver.TDVP,
        )
        if c.get("autosave_dt") is not None:
            kw["autosave_dt"] = c["autosave_dt"]
        if c.get("initial_state") is not None:
            kw["initial_state"] = c["initial_state"]
        return MPSConfig(**kw)
    from emu_sv import SVConfig

    kw.update(gpu=False, krylov_tolerance=c.get("krylov_tolerance", 1e-10))
    if c.get("initial_state") is not None:
        kw["initial_state"] = c["initial_state"]
    return SVConfig(**kw)


def resolve_dt(dt: Any, T: int) -> float:
    return float(T + 5) if dt == "T+5" else float(dt)


def choose_dt(tape: Tape, T: int, dts: list, max_steps: int) -> float:
    ok = [d for d in dts if T / resolve_dt(d, T) <= max_steps]
    if not ok:
        ok = [dts[-1]]
    return resolve_dt(tape.choice(ok, "dt"), T)
