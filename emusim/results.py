"""Canonical, SUT-independent view of a pulser `Results` object and run-vs-run comparison."""
from __future__ import annotations

from collections import Counter
from typing import Any

import numpy as np
import torch


def _dense_mps(factors: list) -> np.ndarray:
    acc = factors[0].detach().cpu().reshape(-1, factors[0].shape[-1])
    for f in factors[1:]:
        f = f.detach().cpu()
        acc = (acc @ f.reshape(f.shape[0], -1)).reshape(-1, f.shape[-1])
    return acc.reshape(-1).numpy()


def canon_value(v: Any) -> Any:
    if isinstance(v, torch.Tensor):
        return v.detach().cpu().numpy()
    if isinstance(v, (Counter, dict)):
        if all(isinstance(k, str) and set(k) <= set("01") for k in v.keys()) and all(
            isinstance(c, (int, np.integer)) for c in v.values()
        ):
            return {"__counter__": {k: int(c) for k, c in sorted(v.items())}}
        return {"__dict__": sorted(str(k) for k in v.keys())}
    if isinstance(v, (list, tuple)):
        try:
            return np.array(v)
        except Exception:
            return [canon_value(x) for x in v]
    if isinstance(v, (int, float, complex, np.number)):
        return np.array(v)
    if hasattr(v, "factors"):  # MPS
        n = len(v.factors)
        if n <= 12:
            return {"__state__": _dense_mps(list(v.factors))}
        return {"__state__": None}
    if hasattr(v, "data") and isinstance(getattr(v, "data"), torch.Tensor):  # sv / dm
        return {"__state__": v.data.detach().cpu().numpy()}
    return {"__repr__": type(v).__name__}


def canon_results(res: Any) -> dict:
    out: dict[str, Any] = {
        "atom_order": tuple(str(x) for x in res.atom_order),
        "total_duration": int(res.total_duration),
        "tags": {},
    }
    for tag in sorted(res.get_result_tags()):  # pulser's aggregate() stores tags in set-iteration order
        times = res.get_result_times(tag)
        vals = res.get_tagged_results()[tag]
        out["tags"][tag] = [(float(t), canon_value(v)) for t, v in zip(times, vals)]
        if len(times) != len(vals):
            out["tags"][tag].append(("LENGTH-MISMATCH", len(times), len(vals)))
    return out


def _cmp_value(a: Any, b: Any, tol: float) -> str | None:
    if isinstance(a, dict) and isinstance(b, dict):
        if "__counter__" in a and "__counter__" in b:
            return None if a["__counter__"] == b["__counter__"] else "bitstring counters differ"
        if "__state__" in a and "__state__" in b:
            if a["__state__"] is None or b["__state__"] is None:
                return None
            return _cmp_value(a["__state__"], b["__state__"], tol)
        if a.keys() != b.keys():
            return f"kinds differ: {sorted(a.keys())} vs {sorted(b.keys())}"
        return None if a == b else "dict values differ"
    if isinstance(a, np.ndarray) and isinstance(b, np.ndarray):
        if a.shape != b.shape:
            return f"shapes differ: {a.shape} vs {b.shape}"
        if a.size == 0:
            return None
        d = float(np.max(np.abs(a - b)))
        if not (d <= tol):
            return f"values differ by {d:.3e} (tol {tol:.1e})"
        return None
    if type(a) is not type(b):
        return f"types differ: {type(a).__name__} vs {type(b).__name__}"
    return None if a == b else "values differ"


def compare(a: dict, b: dict, tol: float = 1e-10, skip_values: tuple = ("statistics",), time_tol: float = 0.0, skip_counters: bool = False, tol_by_tag: dict | None = None) -> list[str]:
    """Differences between two canonical results (empty list = equal)."""
    diffs: list[str] = []
    if a["atom_order"] != b["atom_order"]:
        diffs.append(f"atom_order {a['atom_order']} != {b['atom_order']}")
    if a["total_duration"] != b["total_duration"]:
        diffs.append(f"total_duration {a['total_duration']} != {b['total_duration']}")
    ta, tb = set(a["tags"]), set(b["tags"])
    if ta != tb:
        diffs.append(f"tags differ: only-left={sorted(ta - tb)} only-right={sorted(tb - ta)}")
    for tag in sorted(ta & tb):
        la, lb = a["tags"][tag], b["tags"][tag]
        tsa, tsb = [x[0] for x in la], [x[0] for x in lb]
        same_times = len(tsa) == len(tsb) and all(
            (x == y) if time_tol == 0.0 else (isinstance(x, float) and isinstance(y, float) and abs(x - y) <= time_tol)
            for x, y in zip(tsa, tsb)
        )
        if not same_times:
            diffs.append(f"{tag}: times differ: {tsa} vs {tsb}")
            continue
        if tag in skip_values:
            continue
        for (t, va), (_, vb) in zip(la, lb):
            if skip_counters and isinstance(va, dict) and "__counter__" in va:
                continue
            d = _cmp_value(va, vb, (tol_by_tag or {}).get(tag, tol))
            if d is not None:
                diffs.append(f"{tag}@{t!r}: {d}")
                break
    return diffs


def summarize(c: dict, maxlen: int = 6) -> dict:
    """Small JSON-able view for evidence samples / replay files."""
    out: dict[str, Any] = {"atom_order": list(c["atom_order"]), "tags": {}}
    for tag, lst in c["tags"].items():
        ent = []
        for item in lst[:maxlen]:
            t, v = item[0], item[1]
            if isinstance(v, np.ndarray):
                vv: Any = np.round(np.real(v), 6).tolist() if v.size <= 16 else f"array{v.shape}"
            elif isinstance(v, dict) and "__counter__" in v:
                vv = dict(list(v["__counter__"].items())[:8])
            else:
                vv = str(type(v).__name__)
            ent.append([t, vv])
        out["tags"][tag] = ent
    return out
